"""C08 - type following yields the declared types (type_based_replacement.py, object_stream.py)."""
from __future__ import annotations

import ast
import itertools

from ..lib import Facts, calls_in, own_nodes, stmt_of
from ..model import AnalysisError, FuncInfo
from ..report import Run
from ..terms import walk_all, TermCtx, contains, show, strip_sites, unphi_terms
from .c07 import check_env_merge

EXPLANATION = (
    "(R1) the per-node type rules, read as a finite table: Compare and BoolOp record bool; the BinOp decision list is interpreted over "
    "{int, float, Any}^2 x {Div, other} (18 points) and equals 'Any if either is Any, float if either is float or the operator is /, else int'; "
    "the IfExp decision list over {int, float, Any, other}^2 (16 points) equals 'same -> that type; both numeric-or-Any -> float; else "
    "ValueError'; Constant records type(value); Name the type bound to its id; a tuple-literal subscript the element's type; dictionary / "
    "dataclass attribute and subscript the field's resolved type hint (typing.get_type_hints); other subscripts unwrap_iterable of the "
    "value's type; (R2) Select gives the lambda's type, SelectMany unwrap_iterable of it, Where self.item_type under the dominating gate "
    "'rtn_type != bool -> ValueError'; (R3) First is annotated with the collection's own type variable, Count and len with int; method "
    "return annotations are resolved with resolve_type_vars(annotation, object type, at_class=defining class); (R4) a lambda's own "
    "parameter type is the last writer over inherited names."
    " (R5) inherited declarations are seen; (R6) a parameterised class hands its arguments to its generic base by position, paired with the variables of its own class; (R7) dictionary literals are typed exactly when their keys can be dataclass fields; (R8) a repeated key has the type of its last entry; (R9) the base a class inherits its parameters from is its first parameterised base other than Generic[..]; (R10) an unparameterised subclass is followed through what it inherits before type variables are given up."
    " (R12/R13) the iterable test does not consult the element type; the result of a nested collection operator derives from the collection method's call."
    " (R14) the MRO walk of get_method_and_class is ended only by a class that has a different attribute of that name, not by one that has none."
    " (R17, as of D53) a base is replaced by the typing alias of the same name only when it is a collections.abc class; (R18, as of D54) an attribute of a dataclass-typed value is refused only when the class has no such attribute at all; (R1, as of D55) the unary rule is evaluated as a decision list: `not` gives bool, the other unary operators the operand's type; (R19, as of D57) unwrap_iterable walked with get_args(t) == () comes to `return Any`; (R20) = C07.R13."
)
NOT_DECIDED = "the type-variable algebra of util_types.py over arbitrary class models (it manipulates runtime typing objects whose structure is not in this repository's source)."

TYPES3 = ["int", "float", "Any"]
TYPES4 = ["int", "float", "Any", "str"]


def check(run: Run) -> None:
    m = run.model
    mod = "func_adl.type_based_replacement"
    run.rule("C08.R1", "node type rules as a finite table (abstract evaluation of BinOp / IfExp decision lists; store terms for the others)")
    run.rule("C08.R2", "stream item types of Select / SelectMany / Where; Where's boolean gate dominates construction")
    run.rule("C08.R3", "First -> class type variable, Count/len -> int; method return types via resolve_type_vars(.., obj_type, at_class=method_class)")
    run.rule("C08.R4", "inner lambda parameter type wins over inherited names")
    ctx = TermCtx(m, max_depth=1, opaque={"lookup_type", "unwrap_iterable", "get_type_hints", "remap_from_lambda", "clone_with_new_ast", "function_call", "parse_as_ast", "_local_simplification", "_fill_in_default_arguments", "resolve_type_vars"})
    outer = m.find_func("remap_by_types", in_module=mod)
    from ..lib import used_visitor

    classes = [used_visitor(m, ctx, outer, True)]
    if len(classes) != 1:
        raise AnalysisError("remap_by_types no longer contains one transformer")
    tt = classes[0]

    from ..normalise import unrolled

    def stores(fi: FuncInfo):
        fi = unrolled(m, fi)  # recording may go through a small private procedure (self._record_type(a, b, t))
        fa = ctx.analysis(fi)
        out = []
        for n in own_nodes(fi):
            if isinstance(n, ast.Assign) and isinstance(n.targets[0], ast.Subscript) and fa.cfg.has_node(n):
                base = strip_sites(fa.term_of(n.targets[0].value))
                if base == ("attr", ("param", fi.pos_params[0]), "_found_types"):
                    out.append((n, strip_sites(fa.term_of(n.targets[0].slice)), strip_sites(fa.term_of(n.value))))
        return fa, out

    def need(name: str) -> FuncInfo:
        f = tt.methods.get(name)
        if f is None:
            raise AnalysisError(f"anchor vanished: type_transformer.{name}")
        return unrolled(m, f)

    BOOL = ("global", "builtins.bool")
    # Compare / BoolOp
    for name in ("visit_Compare", "visit_BoolOp"):
        fi = need(name)
        fa, st = stores(fi)
        nodep = ("param", fi.pos_params[1])
        keys = {k for _n, k, _v in st}
        ok = bool(st) and all(v == BOOL for _n, _k, v in st) and nodep in keys
        run.check(ok, "C08.R1", fi, fi.node, f"{name[6:]} records bool for the node", f"{name} records {[show(v) for _n, _k, v in st]} (keys {[show(k) for k in keys]}): comparisons / and-or must have type bool", "self._found_types[node] = bool")
    # Constant
    fi = need("visit_Constant")
    fa, st = stores(fi)
    nodep = ("param", fi.pos_params[1])
    ok = len(st) == 1 and st[0][1] == nodep and st[0][2] == ("app", ("global", "builtins.type"), (("attr", nodep, "value"),), ())
    run.check(ok, "C08.R1", fi, fi.node, "Constant records type(node.value)", f"visit_Constant records {[show(v) for _n, _k, v in st]}")
    # Name
    fi = need("visit_Name")
    fa, st = stores(fi)
    nodep = ("param", fi.pos_params[1])
    ft = ("attr", ("param", fi.pos_params[0]), "_found_types")
    ok = False
    for n, k, v in st:
        fx = Facts(fa, n)
        known = any(pol and isinstance(a, ast.Compare) and isinstance(a.ops[0], ast.In) and strip_sites(fa.term_of(a.left)) == ("attr", nodep, "id") and strip_sites(fa.term_of(a.comparators[0])) == ft for a, pol in fx.atoms)
        if known:
            ok = k == nodep and v == ("subscript", ft, ("attr", nodep, "id"))
    run.check(ok, "C08.R1", fi, fi.node, "a known name gets the type bound to its id", "visit_Name does not record found_types[node.id] for a known name")
    # UnaryOp
    fi = need("visit_UnaryOp")
    fa, st = stores(fi)
    nodep = ("param", fi.pos_params[1])
    keys = {k for _n, k, _v in st}
    ok = bool(st) and all(nodep in {k2 for _n2, k2, v2 in st if v2 == v} for _n, _k, v in st)
    run.check(ok, "C08.R1", fi, fi.node, "whatever type is recorded for a unary operator is recorded for the node as written too", f"visit_UnaryOp records {[show(v)[:60] for _n, _k, v in st]} (keys {[show(k) for k in keys]})")
    # `not x` is a bool whatever x is (D55); -x, +x, ~x keep the operand's type
    _decision(run, ctx, fi, {"operand": "L"}, TYPES4 + ["bool"], ["Not", "USub", "UAdd", "Invert"], _spec_unary, "C08.R1")

    # BinOp / IfExp decision lists
    _decision(run, ctx, need("visit_BinOp"), {"left": "L", "right": "R"}, TYPES3 + ["bool"], ["Div", "Add"], _spec_binop, "C08.R1")
    _decision(run, ctx, need("visit_IfExp"), {"body": "L", "orelse": "R"}, TYPES4, [None], _spec_ifexp, "C08.R1")

    # Subscript
    fi = need("visit_Subscript")
    fa, st = stores(fi)
    nodep = ("param", fi.pos_params[1])
    V = ("gvisit", nodep)
    kinds = set()
    for n, k, v in st:
        fx = Facts(fa, n)
        if fx.isinstance_of(("attr", V, "value"), {"ast.Tuple"}):
            ok = v[0] == "app" and v[1][1].endswith("lookup_type") and v[2][-1][0] == "subscript" and v[2][-1][1] == ("attr", ("attr", V, "value"), "elts")
            idx = v[2][-1][2] if ok else None
            ok = ok and idx == ("attr", ("attr", V, "slice"), "value")
            run.check(ok, "C08.R1", fi, n, "tuple-literal subscript has the selected element's type", f"tuple subscript records {show(v)[:100]}")
            kinds.add("tuple")
        elif any(pol and isinstance(a, ast.Call) and isinstance(a.func, ast.Name) and a.func.id == "is_dataclass" for a, pol in fx.atoms):
            ok = v[0] == "subscript" and v[1][0] == "app" and v[1][1][1].endswith("get_type_hints") and v[2] == ("app", ("global", "ast.literal_eval"), (("attr", V, "slice"),), ())
            run.check(ok, "C08.R1", fi, n, "dataclass/dictionary subscript has the field's resolved hint", f"dataclass subscript records {show(v)[:120]}: field types must come from typing.get_type_hints (resolved annotations)", "get_type_hints(dc)[key]")
            kinds.add("dataclass")
        else:
            ok = v[0] == "app" and v[1][1].endswith("unwrap_iterable") and v[2][0][0] == "app" and v[2][0][1][1].endswith("lookup_type") and v[2][0][2][-1] == ("attr", V, "value")
            run.check(ok, "C08.R1", fi, n, "other subscripts have the element type of the value's type", f"subscript records {show(v)[:100]}")
            kinds.add("other")
    run.check(kinds == {"tuple", "dataclass", "other"}, "C08.R1", fi, fi.node, "subscript has the three cases tuple literal / dataclass / iterable", f"subscript cases found: {sorted(kinds)}")
    # Attribute
    fi = need("visit_Attribute")
    fa, st = stores(fi)
    nodep = ("param", fi.pos_params[1])
    V = ("gvisit", nodep)
    kinds = set()
    for n, k, v in st:
        fx = Facts(fa, n)
        if fx.isinstance_of(("attr", V, "value"), {"ast.Dict"}):
            ok = v[0] == "app" and v[1][1].endswith("lookup_type") and contains(v, lambda s: s == ("attr", ("attr", V, "value"), "values"))
            run.check(ok, "C08.R1", fi, n, "dict-literal attribute has the type of the value stored under that key", f"dict attribute records {show(v)[:100]}")
            kinds.add("dict")
        else:
            ok = v[0] == "subscript" and v[1][0] == "app" and v[1][1][1].endswith("get_type_hints") and v[2] == ("attr", nodep, "attr")
            run.check(ok, "C08.R1", fi, n, "dataclass attribute has the field's resolved hint", f"dataclass attribute records {show(v)[:140]}: field types must come from typing.get_type_hints(dc) - raw annotations (dataclasses.fields().type, __annotations__) are strings under postponed evaluation", "get_type_hints(dc)[node.attr]", show(v))
            kinds.add("dataclass")
    run.check(kinds == {"dict", "dataclass"}, "C08.R1", fi, fi.node, "attribute has the cases dict literal / dataclass", f"attribute cases: {sorted(kinds)}")
    # key lookup in the dict-literal case compares the key constant's value with the attribute name
    ok = False
    keys_t = ("attr", ("attr", V, "value"), "keys")
    for n, k, v in st:
        for sub in walk_all(v):
            if isinstance(sub, tuple) and sub and sub[0] == "comp" and len(sub[3]) == 1:
                it, conds = sub[3][0]
                en = ("app", ("global", "builtins.enumerate"), (keys_t,), ())
                if it != en or sub[2] != ("index", ("elem", en), 0) or len(conds) != 1:
                    continue
                c_ = conds[0]
                kv = ("attr", ("index", ("elem", en), 1), "value")
                names = (("attr", V, "attr"), ("attr", nodep, "attr"))
                if c_[0] == "op" and c_[1] == "Compare:Eq" and ((c_[2][0] == kv and c_[2][1] in names) or (c_[2][1] == kv and c_[2][0] in names)):
                    ok = True
    if not ok:
        # loop form: for e, k in enumerate(keys): if k.value == name: idx = e  (the last match stays)
        en = ("app", ("global", "builtins.enumerate"), (keys_t,), ())
        kv = ("attr", ("index", ("elem", en), 1), "value")
        names = (("attr", V, "attr"), ("attr", nodep, "attr"))
        for n in own_nodes(fi):
            if not (isinstance(n, ast.Assign) and len(n.targets) == 1 and isinstance(n.targets[0], ast.Name) and fa.cfg.has_node(n)):
                continue
            if strip_sites(fa.term_of(n.value, fa.cfg.node_of(n))) != ("index", ("elem", en), 0):
                continue
            for a, pol in Facts(fa, n).atoms:
                if pol and isinstance(a, ast.Compare) and len(a.ops) == 1 and isinstance(a.ops[0], ast.Eq):
                    l_, r_ = strip_sites(fa.term_of(a.left, fa.cfg.node_of(n))), strip_sites(fa.term_of(a.comparators[0], fa.cfg.node_of(n)))
                    if (l_ == kv and r_ in names) or (r_ == kv and l_ in names):
                        ok = True
    run.check(ok, "C08.R1", fi, fi.node, "dict key is matched by value equality with the attribute name", "dict-literal attribute does not select the key equal to the attribute name")

    # the type of a processed call is recorded for the node handed back *and* for the node it replaces
    from ..lib import final_delegate

    for name in ("process_method_call", "process_function_call", "process_parameterized_method_call"):
        fi = final_delegate(m, need(name))
        fa, st = stores(fi)
        nodep = ("param", fi.pos_params[1])
        ret_terms = set()
        for s_, n_ in fa.returns():
            ret_terms.add(strip_sites(fa.term_of(s_.value, n_)))
        keys = {k for _n, k, _v in st}
        for rtm in ret_terms:
            alts = unphi_terms(rtm)
            covered = all(any(a == k or a in unphi_terms(k) for k in keys) for a in alts)
            run.check(covered, "C08.R1", fi, fi.node, f"{name} records a type for the node it returns", f"{name} returns {show(rtm)[:80]} but records the type under {[show(k)[:40] for k in keys]}: the returned (possibly rewritten) call has no recorded type, so a method chained on it is followed as Any - no defaults, no callbacks, wrong item type", "self._found_types[r_node] = <type>")
        run.check(nodep in keys, "C08.R1", fi, fi.node, f"{name} records a type for the node it was given", f"{name} does not record a type for the original node")

    # ---------------- R2
    os_cls = m.find_class("ObjectStream", in_module="func_adl.object_stream")
    from ..lib import view

    for op in ("Select", "SelectMany", "Where"):
        f = view(m, os_cls.methods.get(op))
        if f is None:
            raise AnalysisError(f"anchor vanished: ObjectStream.{op}")
        fo = ctx.analysis(f)
        selfp = ("param", f.pos_params[0])
        rt = strip_sites(fo.return_term())
        ok = rt[0] == "app" and rt[1][1].endswith("clone_with_new_ast") and len(rt[2]) == 3
        ty = rt[2][2] if ok else None
        remap = None
        for sub in walk_all(rt):
            if sub[0] == "app" and sub[1][0] == "global" and sub[1][1].endswith("remap_from_lambda"):
                remap = sub
                break
        rtn = ("index", remap, 2) if remap else None
        if op == "Select":
            good = ty == rtn
            want = "the lambda's result type"
        elif op == "SelectMany":
            good = ty == ("app", ("global", "func_adl.util_types.unwrap_iterable"), (rtn,), ())
            want = "unwrap_iterable(lambda's result type)"
        else:
            good = ty == ("attr", selfp, "_item_type")
            want = "the stream's own item type"
        run.check(ok and good, "C08.R2", f, f.node, f"{op} item type is {want}", f"{op} derives a stream of item type {show(ty)[:100] if ty else '?'}, expected {want}", term=show(rt)[:300])
        if remap is not None:
            a0 = remap[2][0] if remap[0] == "app" else None
            run.check(a0 == selfp, "C08.R2", f, f.node, f"{op} follows types starting from this stream", f"{op} hands {show(a0) if a0 else '?'} to remap_from_lambda")
        if op == "Where":
            raises = [n for n in own_nodes(f) if isinstance(n, ast.Raise)]
            ok_g = False
            for r in raises:
                fx = Facts(fo, r)
                for a, pol in fx.atoms:
                    if isinstance(a, ast.Compare) and len(a.ops) == 1 and strip_sites(fo.term_of(a.left)) == rtn and strip_sites(fo.term_of(a.comparators[0])) == ("global", "builtins.bool"):
                        if (isinstance(a.ops[0], (ast.NotEq, ast.IsNot)) and pol) or (isinstance(a.ops[0], (ast.Eq, ast.Is)) and not pol):
                            exc = r.exc.func if isinstance(r.exc, ast.Call) else r.exc
                            ok_g = isinstance(exc, ast.Name) and exc.id == "ValueError"
            builds = [c for c in calls_in(f) if isinstance(c.func, ast.Attribute) and c.func.attr == "clone_with_new_ast"]
            dom = bool(builds) and bool(raises) and all(fo.cfg.dominates(fo.cfg.node_of(_owner_if(r)), fo.cfg.node_of(b)) for r in raises for b in builds if _owner_if(r) is not None)
            if not (ok_g and dom) and builds:
                # the test may stand in a guard helper (`_require_boolean(rtn_type, ..)`: if rtn_type != bool: raise ValueError):
                # what counts is that "followed type == bool" is a fact where the stream is built, and that the refusal is a ValueError
                from ..lib import unit as _unit

                def _is_bool_fact(b_):
                    for a, pol in Facts(fo, b_).atoms:
                        if isinstance(a, ast.Compare) and len(a.ops) == 1 and fo.cfg.has_node(b_):
                            try:
                                l_, r_ = strip_sites(fo.term_of(a.left, fo.cfg.node_of(b_))), strip_sites(fo.term_of(a.comparators[0], fo.cfg.node_of(b_)))
                            except AnalysisError:
                                continue
                            if {l_, r_} == {rtn, ("global", "builtins.bool")} and ((isinstance(a.ops[0], (ast.Eq, ast.Is)) and pol) or (isinstance(a.ops[0], (ast.NotEq, ast.IsNot)) and not pol)):
                                return True
                    return False

                all_raises = [n for g_ in _unit(m, f) for n in own_nodes(g_) if isinstance(n, ast.Raise) and n.exc is not None]
                val_err = bool(all_raises) and all(isinstance((r.exc.func if isinstance(r.exc, ast.Call) else r.exc), ast.Name) and (r.exc.func if isinstance(r.exc, ast.Call) else r.exc).id == "ValueError" for r in all_raises)
                if all(_is_bool_fact(b_) for b_ in builds) and val_err:
                    ok_g = dom = True
            run.check(ok_g and dom, "C08.R2", f, f.node, "Where rejects a non-boolean filter with ValueError before building the stream", "Where does not reject a filter whose followed type is not bool with ValueError (or builds the stream before the test)")

    # ---------------- R3
    coll = m.find_class("ObjectStreamInternalMethods", in_module=mod)
    first, count = coll.methods.get("First"), coll.methods.get("Count")
    if first is None or count is None:
        raise AnalysisError("anchor vanished: ObjectStreamInternalMethods.First / Count")
    tv = None
    for b in coll.node.bases:
        if isinstance(b, ast.Subscript):
            tv = ast.unparse(b.slice)
    run.check(first.node.returns is not None and ast.unparse(first.node.returns) == tv, "C08.R3", first, first.node, "First returns the collection's own type variable", f"First is annotated -> {ast.unparse(first.node.returns) if first.node.returns else None}, the class is parameterised by {tv}")
    run.check(count.node.returns is not None and ast.unparse(count.node.returns) == "int", "C08.R3", count, count.node, "Count returns int", "Count is not annotated -> int")
    from ..lib import view as _view_ld

    ld0 = m.find_func("_load_default_global_functions", in_module=mod)
    ld = _view_ld(m, ld0)  # the registrations may be made by a loop over a local literal table of (name, function) pairs
    my_len = [f for f in m.funcs.values() if f.parent_func is ld0 and f.name == "my_len"]
    ok = len(my_len) == 1 and my_len[0].node.returns is not None and ast.unparse(my_len[0].node.returns) == "int"
    reg = any(isinstance(n, ast.Assign) and isinstance(n.targets[0], ast.Subscript) and isinstance(n.targets[0].slice, ast.Constant) and n.targets[0].slice.value == "len" and "my_len" in ast.unparse(n.value) for n in own_nodes(ld))
    if not reg:
        # through a private registration helper: the record ("len", my_len, ..) is built, and stored in the table, there
        from ..lib import call_events as _ce3

        for e_ in _ce3(TermCtx(m, max_depth=1), ld, lambda n_: n_.endswith("FuncAdlFunction")):
            a_ = [strip_sites(x_) for x_ in e_.args]
            if len(a_) >= 2 and a_[0] == ("const", "len") and a_[1][0] == "global" and a_[1][1].endswith(".my_len"):
                reg = reg or any(isinstance(n, ast.Assign) and isinstance(n.targets[0], ast.Subscript) and isinstance(n.targets[0].value, ast.Name) and n.targets[0].value.id == "_global_functions" for n in own_nodes(e_.owner))
    run.check(ok and reg, "C08.R3", ld, ld.node, "len is registered with return type int", "len is not registered as a function returning int")
    pm = m.find_func("process_method_call", in_module=mod)
    from ..lib import site_owner

    pm, _inv = site_owner(m, ctx, pm, "resolve_type_vars")
    fpm = ctx.analysis(pm)
    rs = [c for c in calls_in(pm) if isinstance(c.func, ast.Name) and c.func.id == "resolve_type_vars"]
    ok = len(rs) == 1
    if ok:
        c = rs[0]
        a1 = strip_sites(fpm.term_of(c.args[1])) if len(c.args) > 1 else None
        kw = {k.arg: strip_sites(fpm.term_of(k.value)) for k in c.keywords}
        at = kw.get("at_class") or (strip_sites(fpm.term_of(c.args[2])) if len(c.args) > 2 else None)
        ok = a1 is not None and a1[0] == "attr" and a1[2] == "obj_type" and at is not None and at[0] == "attr" and at[2] == "method_class" and a1[1] == at[1]
        a0 = strip_sites(fpm.term_of(c.args[0]))
        ok = ok and a0[0] == "index" and a0[2] == 1 and a0[1][0] == "app" and a0[1][1][1].endswith("_fill_in_default_arguments")
    run.check(ok, "C08.R3", pm, stmt_of(rs[0]) if rs else pm.node, "method return annotation resolved against the object type at the defining class", "the return annotation of a method is not resolved with resolve_type_vars(annotation, obj_type, at_class=method_class): class type variables are not substituted through inheritance")
    fd = m.find_func("_fill_in_default_arguments", in_module=mod)
    ffd = ctx.analysis(fd)
    rt = strip_sites(ffd.return_term())
    from ..lib import tuple_component

    ty_c = tuple_component(rt, 1, 2)
    tys = unphi_terms(ty_c) if ty_c is not None else []
    def _hint(t) -> bool:
        # get_type_hints(func)["return"], or .get("return", <marker for absent>)
        if t[0] == "index" and t[2] == "return" and t[1][0] == "app" and t[1][1][1].endswith("get_type_hints"):
            return True
        return t[0] == "app" and t[1][0] == "attr" and t[1][2] == "get" and t[1][1][0] == "app" and t[1][1][1][1].endswith("get_type_hints") and len(t[2]) >= 1 and t[2][0] == ("const", "return")

    ok = ("global", "typing.Any") in tys and any(_hint(t) for t in tys) and len(tys) == 2
    if not ok and len(tys) == 1 and _hint(tys[0]) and tys[0][0] == "app" and len(tys[0][2]) == 2 and tys[0][2][1] == ("global", "typing.Any"):
        ok = True  # get_type_hints(func).get("return", Any)
    run.check(ok, "C08.R3", fd, fd.node, "declared return type is get_type_hints(func)['return'], Any when absent", f"the return type is {show(ty_c)[:120] if ty_c is not None else show(rt)[:120]}")
    # results
    frt = strip_sites(TermCtx(m, max_depth=1, opaque={"lookup_type"}).analysis(outer).return_term())
    ok = frt[0] == "tuple" and len(frt[1]) == 3 and frt[1][1][0] == "tvisit" and frt[1][1][2] == ("param", outer.pos_params[2]) and frt[1][2][0] == "app" and frt[1][2][2][-1] == ("param", outer.pos_params[2]) and frt[1][0][0] == "attr" and frt[1][0][2] == "_stream"
    run.check(ok, "C08.R2", outer, outer.node, "remap_by_types returns (final stream, transformed ast, type recorded for the ast)", f"remap_by_types returns {show(frt)[:160]}")

    # ---------------- R4
    check_env_merge(run, m, "C08.R4")
    from .c07 import check_inherited_lookup

    check_inherited_lookup(run, m, "C08.R5")
    _check_typevar_pairing(run, m)
    from .c10 import check_dict_typing

    _check_dict_attr_type(run, ctx, tt)
    run.rule("C08.R7", "dictionary literals are typed whenever their keys can be dataclass fields (shared with C07.R7 / C10.R3)")
    check_dict_typing(run, TermCtx(m, max_depth=1, opaque={"lookup_type", "remap_by_types"}), m, tt, "C08.R7")
    check_iterable_test(run, m, "C08.R12")
    check_mro_walk(run, m, "C08.R14")
    check_typing_swap(run, m, "C08.R17")
    check_dataclass_members(run, m, tt, "C08.R18")
    check_bare_iterable(run, m, "C08.R19")
    from .c07 import check_keyword_operands

    check_keyword_operands(run, m, tt, "C08.R20")
    # "rejects a non-boolean filter with ValueError" - also at depth: nothing on the way may catch it
    from .c10 import check_refusals_propagate

    check_refusals_propagate(run, m, "C08.R15")
    run.rule("C08.R16", "the item type of a derived stream is what type following of the operator's own lambda returned (C01.R1-R3 re-evaluated)")
    from ..report import Relabel as _Rl
    from .c01 import check_plumbing as _plumb

    _plumb(_Rl(run, "C08.R16"), m)
    check_nested_lambda_followed(run, m, tt, "C08.R13")


def _check_typevar_pairing(run: Run, m) -> None:
    """R6. A parameterised class hands its arguments to its generic base by *position*: the i-th type variable of the
    base (`__parameters__`) stands for the i-th actual argument (`get_args(t)`). The substitution map of
    util_types.get_inherited must be exactly that pairing - {p.__name__: a for p, a in zip(params, args)} or
    dict(zip(names, args)) - or Matches[Jet, Track] (a subclass of Iterable[Tuple[K, V]]) unwraps to Tuple[Track, Track]."""
    from ..lib import unit
    from ..terms import subterms

    run.rule("C08.R6", "get_inherited pairs the base's type variables with the actual type arguments positionally (zip(__parameters__, get_args(t)))")
    gi = m.find_func("get_inherited", in_module="func_adl.util_types")
    ctx = TermCtx(m, max_depth=1)
    n_maps = 0
    mentions = lambda t, name: contains(t, lambda s: s[0] == "attr" and s[2] == name)  # noqa: E731
    is_args = lambda t: t[0] == "app" and t[1][0] == "global" and t[1][1].endswith("get_args")  # noqa: E731
    for f_ in unit(m, gi):
        fa = ctx.analysis(f_)
        for n in own_nodes(f_):
            if not (isinstance(n, (ast.DictComp, ast.Call)) and fa.cfg.has_node(n)):
                continue
            if isinstance(n, ast.Call) and not (isinstance(n.func, ast.Name) and n.func.id == "dict"):
                continue
            t = strip_sites(fa.term_of(n))
            if not mentions(t, "__parameters__"):
                continue
            n_maps += 1
            ok = False
            why = "not a positional pairing"
            if t[0] == "comp" and t[1] == "DictComp" and t[2][0] == "tuple" and len(t[2][1]) == 2:
                key, val = t[2][1]
                gens = t[3]
                if len(gens) != 1:
                    why = f"{len(gens)} nested loops: every type variable is combined with every argument, the last argument wins for all of them"
                elif gens[0][1]:
                    why = "pairs are filtered by a condition"
                else:
                    z = gens[0][0]
                    if z[0] == "app" and z[1] == ("global", "builtins.zip") and len(z[2]) == 2 and mentions(z[2][0], "__parameters__") and is_args(z[2][1]):
                        ok = key == ("attr", ("index", ("elem", z), 0), "__name__") and val == ("index", ("elem", z), 1)
                        why = f"key {show(key)[:60]} / value {show(val)[:60]} are not the two components of one zip element"
                        # the arguments of t stand for the type variables of t's *own* class (get_origin(t).__parameters__);
                        # the first base may use only some of them, or in another order: class Assoc(Iterable[V], Generic[K, V])
                        if ok and mentions(z[2][0], "__orig_bases__"):
                            ok = False
                            why = "the arguments of the type are paired with the type variables of its first *base*, not with its own: Assoc[str, float] for class Assoc(Iterable[V], Generic[K, V]) unwraps to str"
                    else:
                        why = f"the loop runs over {show(z)[:100]}, not zip(<base>.__parameters__, get_args(t))"
            elif t[0] == "app" and t[1] == ("global", "builtins.dict") and len(t[2]) == 1:
                z = t[2][0]
                if z[0] == "app" and z[1] == ("global", "builtins.zip") and len(z[2]) == 2 and is_args(z[2][1]):
                    names = z[2][0]
                    ok = names[0] == "comp" and len(names[3]) == 1 and not names[3][0][1] and mentions(names[3][0][0], "__parameters__") and names[2] == ("attr", ("elem", names[3][0][0]), "__name__")
                    why = "names are not [p.__name__ for p in <base>.__parameters__]"
            run.check(ok, "C08.R6", f_, stmt_of(n), "type variables and type arguments are paired by position", f"the substitution map for the generic base is {show(t)[:160]}: {why}", "{p.__name__: a for p, a in zip(base.__parameters__, get_args(t))}", show(t)[:300], key="type-variable map is not zip(parameters, arguments)")
    run.floor("C08.R6", n_maps, 1, "type-variable substitution maps in get_inherited")
    _check_base_choice(run, m, ctx, gi)
    _check_non_generic_subclass(run, m)
    _check_reparameterise(run, m)


def _check_base_choice(run: Run, m, ctx, gi) -> None:
    """R9. `class Coll(Generic[T])`, `class Sub(Named, Base[T])`: the type a class inherits from is its first
    parameterised base that is a real class. Taking __orig_bases__[0] whatever it is re-parameterises typing.Generic
    (TypeError) or reads __parameters__ of a plain class (AttributeError) - for the most ordinary generic class."""
    from ..terms import subterms

    run.rule("C08.R9", "get_inherited skips Generic[..] and unparameterised bases when it picks the base a class inherits its parameters from")
    fa = ctx.analysis(gi)
    n_pick = 0
    for n in own_nodes(gi):
        if not (isinstance(n, ast.Subscript) and isinstance(n.ctx, ast.Load) and isinstance(n.slice, ast.Constant) and n.slice.value == 0 and fa.cfg.has_node(n)):
            continue
        src = strip_sites(fa.term_of(n.value))
        if not contains(src, lambda q: q[0] == "attr" and q[2] == "__orig_bases__"):
            continue
        n_pick += 1
        filtered = any(c[0] == "comp" and any(contains(cond, lambda q: q == ("global", "typing.Generic")) for _it, conds in c[3] for cond in conds) for c in subterms(src) if isinstance(c, tuple) and c and c[0] == "comp")
        run.check(filtered, "C08.R9", gi, stmt_of(n), "the base is picked among the parameterised bases other than Generic[..]", f"get_inherited takes the first entry of __orig_bases__ ({show(src)[:80]}) whatever it is: for class Coll(Generic[T]) that is Generic[T] - re-parameterising it raises TypeError, so every method call on a Coll[Jet] fails - and for class Sub(Named, Base[T]) it is a plain class without __parameters__", "[b for b in bases if get_origin(b) is not None and get_origin(b) is not typing.Generic][0]", show(src)[:200], key="first base taken whatever it is")
    run.floor("C08.R9", n_pick, 1, "picks of a base in get_inherited")


def _check_non_generic_subclass(run: Run, m) -> None:
    """R10. class JetList(Coll[Jet]) has no parameters of its own but fixes Coll's: looking for the parameters of
    `at_class` in a type that is not parameterised must go on through what the type inherits from before it gives up."""
    run.rule("C08.R10", "build_type_dict_from_type follows get_inherited for an unparameterised type before it refuses")
    bt = m.find_func("build_type_dict_from_type", in_module="func_adl.util_types")
    ctx = TermCtx(m, max_depth=1)
    fa = ctx.analysis(bt)
    tp = ("param", bt.pos_params[0])
    n_r = 0
    for r in [n for n in own_nodes(bt) if isinstance(n, ast.Raise)]:
        fx = Facts(fa, r)
        # the refusal made when get_origin(t) is None
        origin_none = False
        for a, pol in fx.atoms:
            if isinstance(a, ast.Compare) and len(a.ops) == 1 and isinstance(a.ops[0], (ast.Is, ast.IsNot)) and isinstance(a.comparators[0], ast.Constant) and a.comparators[0].value is None and (isinstance(a.ops[0], ast.Is) == pol):
                lt = strip_sites(fa.term_of(a.left))
                if lt[0] == "app" and lt[1][0] == "global" and lt[1][1].endswith("get_origin") and lt[2] == (tp,):
                    origin_none = True
        if not origin_none or isinstance(getattr(r, "cause", None), ast.AST) and False:
            continue
        n_r += 1
        tried = any(isinstance(c.func, ast.Name) and c.func.id == "get_inherited" and c.args and strip_sites(fa.term_of(c.args[0])) == tp and fa.cfg.has_node(c) and fa.cfg.dominates(fa.cfg.node_of(c), fa.cfg.node_of(r)) for c in calls_in(bt))
        run.check(tried, "C08.R10", bt, r, "an unparameterised type is refused only after its inherited type was tried", "build_type_dict_from_type gives up on a type that has no parameters of its own without looking at what it inherits from: for class JetList(Coll[Jet]) the variables of Coll stay unresolved and a method declared `-> T` on Coll is typed Any", "inherited = get_inherited(t); if inherited is not Any: return build_type_dict_from_type(inherited, at_class)", key="unparameterised type refused without following its bases")
    run.floor("C08.R10", n_r, 1, "refusals for an unparameterised type")
    # .. and the search goes on *for the same class*: every recursive call hands `at_class` on unchanged
    n_rec = 0
    if len(bt.pos_params) >= 2:
        acp = ("param", bt.pos_params[1])
        for c in calls_in(bt):
            if isinstance(c.func, ast.Name) and c.func.id == bt.name and fa.cfg.has_node(c):
                n_rec += 1
                a1 = strip_sites(fa.term_of(c.args[1])) if len(c.args) >= 2 else next((strip_sites(fa.term_of(k.value)) for k in c.keywords if k.arg == bt.pos_params[1]), None)
                run.check(a1 == acp, "C08.R10", bt, stmt_of(c), "the recursion keeps looking for at_class", f"the search continues in the inherited type with {show(a1)[:60] if a1 else 'no class'} instead of at_class: the bindings of the first parameterised base are returned, not those of the class that declares the method - JetGroups(Grouped[Jet]), Grouped(Base[Iterable[T]]), Base.first() -> T is typed Jet instead of Iterable[Jet]", "build_type_dict_from_type(inherited, at_class)", key="recursion drops at_class")
    run.floor("C08.R10", n_rec, 1, "recursive steps of build_type_dict_from_type")


def strip_visits_attr(t):
    from ..terms import strip_visits

    return strip_visits(t)


def _owner_if(r: ast.Raise):
    from ..model import ancestors

    for a in ancestors(r):
        if isinstance(a, ast.If):
            return a
    return None


def _spec_binop(l, r, op):
    if l == "Any" or r == "Any":
        return "Any"
    if l == "float" or r == "float":
        return "float"
    if op == "Div":
        return "float"
    return "int"


def _spec_unary(l, _r, op):
    return "bool" if op == "Not" else l


def _spec_ifexp(l, r, _op):
    if l == r:
        return l
    if l in ("int", "float", "Any") and r in ("int", "float", "Any"):
        return "float"
    return "ValueError"


class _Unsupported(Exception):
    pass


def _decision(run: Run, ctx, fi: FuncInfo, roles, domain, ops, spec, rule: str) -> None:
    """Interpret the if/elif chain of a type rule over a finite abstract domain."""
    fa = ctx.analysis(fi)
    # role variables: t = self.lookup_type(<node>.left) ...
    role_of = {}
    for n in own_nodes(fi):
        if isinstance(n, ast.Assign) and len(n.targets) == 1 and isinstance(n.targets[0], ast.Name) and isinstance(n.value, ast.Call) and isinstance(n.value.func, ast.Attribute) and n.value.func.attr == "lookup_type" and n.value.args:
            a = n.value.args[0]
            if isinstance(a, ast.Attribute) and a.attr in roles:
                role_of[n.targets[0].id] = roles[a.attr]
    _ROLES[0] = roles
    for n in own_nodes(fi):
        # the lookup written where it is used: self._found_types[node] = self.lookup_type(node.operand)
        if isinstance(n, ast.Call) and isinstance(n.func, ast.Attribute) and n.func.attr == "lookup_type" and n.args and isinstance(n.args[0], ast.Attribute) and n.args[0].attr in roles:
            role_of.setdefault("\0" + roles[n.args[0].attr], roles[n.args[0].attr])
    if set(role_of.values()) != set(roles.values()):
        missing_roles = sorted(set(roles.values()) - set(role_of.values()))
        if role_of and len(role_of) >= len(set(roles.values())):
            # as many type variables as operands, but two of them read the same operand
            run.fail(rule, fi, fi.node, f"{fi.name} never looks up the type of operand {[k for k, v in roles.items() if v in missing_roles]}: {role_of} - both type variables read the same operand, so e.g. float * int is typed from the int alone", "one lookup_type per operand")
            return
        raw = [n for n in own_nodes(fi) if isinstance(n, ast.Subscript) and isinstance(n.ctx, ast.Load) and ast.unparse(n.value).endswith("._found_types") and isinstance(n.slice, ast.Attribute) and n.slice.attr in roles]
        if raw:
            run.fail(rule, fi, stmt_of(raw[0]), f"{fi.name} reads the type of operand '{raw[0].slice.attr}' straight from the table (self._found_types[..]) instead of through the total lookup: an operand that was never typed (an attribute of an untyped object) raises KeyError where the node should be typed Any", "self.lookup_type(node." + raw[0].slice.attr + ")", key="partial type-table read")
            return
        raise AnalysisError(f"{fi.name}: operand type variables not recognised ({role_of})")
    bad = []
    n_points = 0
    m = run.model

    def resolve(call: ast.Call):
        f = call.func
        if isinstance(f, ast.Name):
            tgt = m.lookup_target(m.resolve_dotted(fi.module, fi, f.id))
            return (tgt, 0) if isinstance(tgt, FuncInfo) else None
        if isinstance(f, ast.Attribute) and isinstance(f.value, ast.Name) and fi.cls is not None and f.value.id == fi.pos_params[0]:
            g = m.find_method(fi.cls, f.attr)
            if g is not None and g.name != "lookup_type":
                return g, (0 if "staticmethod" in g.decorators else 1)
        return None

    _RESOLVE[0] = resolve
    _MODULE[0] = fi.module
    _MODEL[0] = m
    for l, r, op in itertools.product(domain, domain if "R" in roles.values() else domain[:1], ops):
        _OPCUR[0] = op
        env = {}
        for var, role in role_of.items():
            env[var] = l if role == "L" else r
        try:
            got = _run_body(fi.node.body, env, op, fi.pos_params[0])
        except _Unsupported as e:
            raise AnalysisError(f"{fi.name}: decision list uses a construct outside the recognised predicate language: {e}")
        n_points += 1
        want = spec(l, r, op)
        if got != want:
            bad.append((l, r, op, got, want))
    run.notes.setdefault("abstract_points", {})[fi.name] = n_points
    run.check(not bad, rule, fi, fi.node, f"{fi.name[6:]} type rule agrees with the specification on all {n_points} abstract points", f"{fi.name}: on {len(bad)} of {n_points} abstract points the recorded type differs from the specification, e.g. (left={bad[0][0]}, right={bad[0][1]}, op={bad[0][2]}) -> {bad[0][3]} instead of {bad[0][4]}" if bad else "")


_OP = ("<the operator>",)


_ROLES = [None]
_OPCUR = [None]


def _const_type(e: ast.AST, env):
    if isinstance(e, ast.IfExp):
        return _const_type(e.body if _test(e.test, env, _OPCUR[0]) else e.orelse, env)
    if isinstance(e, ast.Call) and isinstance(e.func, ast.Attribute) and e.func.attr == "lookup_type" and e.args and isinstance(e.args[0], ast.Attribute) and _ROLES[0] and e.args[0].attr in _ROLES[0] and "\0" + _ROLES[0][e.args[0].attr] in env:
        return env["\0" + _ROLES[0][e.args[0].attr]]
    if isinstance(e, ast.Attribute) and e.attr == "op":
        return _OP  # node.op handed to a helper: tested there with isinstance(op, ast.Div)
    if isinstance(e, ast.Name):
        if e.id in env:
            return env[e.id]
        if e.id in ("int", "float", "bool", "str", "Any"):
            return e.id
    if isinstance(e, ast.Attribute) and e.attr == "Any":
        return "Any"
    raise _Unsupported(ast.unparse(e))


def _test(e: ast.AST, env, op) -> bool:
    if isinstance(e, ast.Name) and isinstance(env.get(e.id), tuple) and env[e.id][:1] == ("flag",):
        return env[e.id][1]
    if isinstance(e, ast.BoolOp):
        vals = [_test(v, env, op) for v in e.values]
        return all(vals) if isinstance(e.op, ast.And) else any(vals)
    if isinstance(e, ast.UnaryOp) and isinstance(e.op, ast.Not):
        return not _test(e.operand, env, op)
    if isinstance(e, ast.Compare) and len(e.ops) == 1:
        o = e.ops[0]
        comp0 = e.comparators[0]
        if isinstance(o, (ast.In, ast.NotIn)) and isinstance(comp0, ast.Name) and comp0.id not in env and _MODULE[0] is not None and isinstance(_MODULE[0].assigns.get(comp0.id), (ast.List, ast.Tuple, ast.Set)):
            comp0 = _MODULE[0].assigns[comp0.id]  # a module-level literal of types
        if isinstance(o, (ast.In, ast.NotIn)) and isinstance(comp0, (ast.List, ast.Tuple, ast.Set)):
            r = _const_type(e.left, env) in [_const_type(x, env) for x in comp0.elts]
            return r if isinstance(o, ast.In) else not r
        l, r = _const_type(e.left, env), _const_type(e.comparators[0], env)
        if isinstance(o, (ast.Eq, ast.Is)):
            return l == r
        if isinstance(o, (ast.NotEq, ast.IsNot)):
            return l != r
    if isinstance(e, ast.Call) and isinstance(e.func, ast.Name) and e.func.id == "isinstance" and len(e.args) == 2:
        subj = ast.unparse(e.args[0])
        if subj.endswith(".op") or (isinstance(e.args[0], ast.Name) and env.get(e.args[0].id) == _OP):
            cls = e.args[1]
            names = [ast.unparse(x).split(".")[-1] for x in (cls.elts if isinstance(cls, ast.Tuple) else [cls])]
            return op in names
    raise _Unsupported(ast.unparse(e))


_RESOLVE = [None]
_MODULE = [None]
_MODEL = [None]


def _eval_helper(g: FuncInfo, skip: int, vals, op):
    """a helper that maps operand types to the result type: (kind, value) with kind in {'type', 'raise'}"""
    params = g.pos_params[skip:]
    if len(params) != len(vals):
        raise _Unsupported(f"call of {g.name} with {len(vals)} arguments")
    env = dict(zip(params, vals))

    def go(body):
        for s in body:
            if isinstance(s, ast.Expr) and isinstance(s.value, ast.Constant):
                continue
            if isinstance(s, ast.If):
                r = go(s.body if _test(s.test, env, op) else s.orelse)
                if r is not None:
                    return r
                continue
            if isinstance(s, ast.Return):
                return ("type", _const_type(s.value, env)) if s.value is not None else ("type", "None")
            if isinstance(s, ast.Raise):
                exc = s.exc.func if isinstance(s.exc, ast.Call) else s.exc
                return ("raise", ast.unparse(exc))
            if isinstance(s, ast.Assign) and len(s.targets) == 1 and isinstance(s.targets[0], ast.Name):
                env[s.targets[0].id] = _const_type(s.value, env)
                continue
            raise _Unsupported(ast.unparse(s)[:60])
        return None

    body_ = g.node.body
    if _MODEL[0] is not None and any(isinstance(x_, ast.For) for x_ in body_):
        from ..normalise import unrolled as _unrolled

        body_ = _unrolled(_MODEL[0], g).node.body  # a first-match loop over a literal table of (type, result) pairs
    r = go(body_)
    if r is None:
        raise _Unsupported(f"{g.name} may fall off its end")
    return r


def _run_body(body, env, op, selfname):
    for s in body:
        if isinstance(s, ast.If):
            branch = s.body if _test(s.test, env, op) else s.orelse
            r = _run_body(branch, env, op, selfname)
            if r is not None:
                return r
            continue
        if isinstance(s, ast.Raise):
            exc = s.exc.func if isinstance(s.exc, ast.Call) else s.exc
            return ast.unparse(exc)
        if isinstance(s, ast.Assign) and len(s.targets) == 1:
            tg = s.targets[0]
            if isinstance(tg, ast.Subscript) and ast.unparse(tg.value) == f"{selfname}._found_types":
                return _const_type(s.value, env)
            if isinstance(tg, ast.Name):
                if isinstance(s.value, ast.Call) and _RESOLVE[0] is not None and not s.value.keywords:
                    got = _RESOLVE[0](s.value)
                    if got is not None:
                        try:
                            vals = [_const_type(a, env) for a in s.value.args]
                        except _Unsupported:
                            vals = None
                        if vals is not None:
                            kind, v = _eval_helper(got[0], got[1], vals, op)
                            if kind == "raise":
                                return v
                            env[tg.id] = v
                            continue
                try:
                    env[tg.id] = _const_type(s.value, env)
                except _Unsupported:
                    # a flag: keeps_type = not isinstance(node.op, ast.Not)
                    try:
                        env[tg.id] = ("flag", _test(s.value, env, op))
                    except _Unsupported:
                        pass  # unrelated assignment (t_node = ..., role variables already bound)
                continue
        if isinstance(s, (ast.Expr, ast.Assert, ast.Return)):
            if isinstance(s, ast.Return):
                return None
            continue
    return None


def _check_dict_attr_type(run: Run, ctx, tt) -> None:
    """R8. <dict literal>.name has the type of the entry python would select: the last one with that key. Decided on
    the construct: values[<matches>[k]] where <matches> lists the positions of equal keys in order - k must be -1."""
    from ..terms import subterms

    run.rule("C08.R8", "the type of <dict literal>.name is that of the last entry with that key")
    va = tt.methods.get("visit_Attribute")
    if va is None:
        raise AnalysisError("anchor vanished: type_transformer.visit_Attribute")
    fa = ctx.analysis(va)
    n = 0
    for node in own_nodes(va):
        if not (isinstance(node, ast.Subscript) and isinstance(node.ctx, ast.Load) and fa.cfg.has_node(node)):
            continue
        t = strip_sites(fa.term_of(node))
        if not (t[0] == "subscript" and t[1][0] == "attr" and t[1][2] == "values"):
            continue
        idx = t[2]
        if idx[0] == "index" and idx[1][0] == "comp" and contains(idx[1], lambda q: q[0] == "attr" and q[2] == "keys") and isinstance(idx[2], int):
            n += 1
            fwd = not contains(idx[1], lambda q: q[0] == "app" and q[1] == ("global", "builtins.reversed"))
            want = -1 if fwd else 0
            run.check(idx[2] == want, "C08.R8", va, stmt_of(node), "the value whose type is recorded is the last entry with the key", f"the type recorded for <dict literal>.name is that of match number {idx[2]} of the entries with that key: with a repeated key python selects the last entry, whose type may differ", "values[key_index[-1]]", show(t)[:200], key="type of the first of several equal dictionary keys")
    run.notes["dict_attr_type_selections"] = n


def _check_reparameterise(run: Run, m) -> None:
    """R11. t[x1, .., xn] takes one value per *free type variable* of t (t.__parameters__), in their order: resolving
    the variables and subscripting with the results keeps the nesting of t. Subscripting with the resolved
    *arguments* (get_args(t)) wraps one level too many: Iterable[Iterable[T]] becomes Iterable[Iterable[Iterable[Jet]]]."""
    run.rule("C08.R11", "_resolve_type re-parameterises a generic alias with one resolved value per free type variable (t.__parameters__)")
    rt = m.find_func("_resolve_type", in_module="func_adl.util_types")
    ctx = TermCtx(m, max_depth=1, opaque={"_resolve_type"})
    fa = ctx.analysis(rt)
    tp = ("param", rt.pos_params[0])
    n = 0
    for node in own_nodes(rt):
        if not (isinstance(node, ast.Subscript) and isinstance(node.ctx, ast.Load) and fa.cfg.has_node(node)):
            continue
        if strip_sites(fa.term_of(node.value)) != tp:
            continue
        n += 1
        idx = strip_sites(fa.term_of(node.slice))
        over_params = contains(idx, lambda q: q[0] == "comp" and any(contains(it, lambda z: (z[0] == "attr" and z[2] == "__parameters__") or (z[0] == "app" and z[1] == ("global", "builtins.getattr") and len(z[2]) >= 2 and z[2][1] == ("const", "__parameters__"))) for it, _c in q[3]))
        over_args = contains(idx, lambda q: q[0] == "comp" and any(contains(it, lambda z: (z[0] == "app" and z[1][0] == "global" and z[1][1].endswith("get_args")) or (z[0] == "attr" and z[2] == "__args__")) for it, _c in q[3]))
        run.check(over_params and not over_args, "C08.R11", rt, stmt_of(node), "the alias is subscripted with its resolved type variables", f"_resolve_type subscripts the generic alias with {show(idx)[:120]}: one entry per *argument* of t instead of one per free type variable - a nested annotation such as Iterable[Iterable[T]] gains a level, Dict[str, T] raises TypeError", "t[tuple(_resolve_type(p, parameters) for p in t.__parameters__)]", show(idx)[:300], key="alias re-parameterised with its arguments")
    run.floor("C08.R11", n, 1, "re-parameterisations in _resolve_type")


def check_iterable_test(run: Run, m, rule: str) -> None:
    """Whether a type is a sequence is a question about its bases (a parameterised Iterable up the chain); what the
    elements are is another one. An `is_iterable` that answers through the element type (unwrap_iterable(t) is not Any,
    get_args(..)[0] ..) says "no" for Iterable[Any]: a sequence of unknown items is then no sequence, its operators get
    no collection class, and the lambdas handed to them are not followed (types, defaults, callbacks inside are lost)."""
    from ..lib import unit

    run.rule(rule, "is_iterable decides from the chain of bases alone (a parameterised Iterable is reached), never from the element type")
    fi = m.find_func("is_iterable", in_module="func_adl.util_types")
    n_ret = 0
    for f in unit(m, fi):
        for c in calls_in(f):
            nm = ast.unparse(c.func).split(".")[-1]
            if nm in ("unwrap_iterable", "get_args") or (nm == "getattr" and len(c.args) >= 2 and isinstance(c.args[1], ast.Constant) and c.args[1].value == "__args__"):
                run.fail(rule, f, stmt_of(c), f"is_iterable answers through {nm}(..), i.e. through the element type: Iterable[Any] - a sequence whose items are not typed - counts as not iterable, so its Select / Where / SelectMany are not followed", "walk get_inherited until _is_iterable_direct; return t is not Any", key="iterable test reads the element type")
        for n in own_nodes(f):
            if isinstance(n, ast.Attribute) and n.attr == "__args__":
                run.fail(rule, f, stmt_of(n), "is_iterable reads __args__ (the element type)", key="iterable test reads the element type")
            if isinstance(n, ast.Return):
                n_ret += 1
    run.floor(rule, n_ret, 1, "returns of is_iterable")
    run.ok(rule, fi, "is_iterable does not consult the element type")


def check_nested_lambda_followed(run: Run, m, tt, rule: str) -> None:
    """process_method_call_on_stream_obj: whatever it hands back as the type of a collection operator comes from calling that
    operator on the stand-in stream - which is what follows the nested lambda (types of its body, call normalisation,
    callbacks). A result made up without that call (because the item type is unknown, because .. ) skips all of it."""
    run.rule(rule, "every result of process_method_call_on_stream_obj derives from the call of the collection method on the stand-in stream (the nested lambda is followed whatever the item type)")
    f = tt.methods.get("process_method_call_on_stream_obj")
    if f is None:
        raise AnalysisError("anchor vanished: type_transformer.process_method_call_on_stream_obj")
    from ..lib import view

    f = view(m, f)
    ctx = TermCtx(m, max_depth=1, opaque={"lookup_type", "fixup_ast_from_modifications", "scan_for_metadata"})
    fa = ctx.analysis(f)
    n = 0

    def from_call(t) -> bool:
        return contains(t, lambda q: q[0] == "app" and isinstance(q[1], tuple) and q[1][0] == "app" and q[1][1] == ("global", "builtins.getattr") and len(q[1][2]) >= 2 and contains(q[1][2][0], lambda z: z[0] == "attr" and z[2] == "obj_type"))

    for s, nd in fa.returns():
        if s.value is None or (isinstance(s.value, ast.Constant) and s.value.value is None):
            continue
        n += 1
        t = strip_sites(fa.term_of(s.value, nd))
        alts = unphi_terms(t)
        for a in alts:
            if a == ("const", None):
                continue
            ty = a[1][1] if a[0] == "tuple" and len(a[1]) == 2 else a
            run.check(from_call(ty), rule, f, s, "the type handed back comes from the collection method's result", f"process_method_call_on_stream_obj hands back {show(ty)[:100]} without having called the collection method on the stand-in stream: the lambda given to the nested Select / Where / SelectMany is not followed (its body gets no types, its calls no defaults, its callbacks do not fire), and a non-boolean nested filter is no longer refused", "r = getattr(obj_type(..), name)(lambda, known_types=..); return call_node, Iterable[r.item_type]", show(a)[:300], key="nested operator result not from the collection method")
    run.floor(rule, n, 2, "results of process_method_call_on_stream_obj")


def check_mro_walk(run: Run, m, rule: str) -> None:
    """get_method_and_class walks the MRO to the class that *defines* the method: it starts at the object's class, moves on
    while the attribute is the same object, and stops where it differs. A class on the way that does not have the
    attribute at all (a mixin listed before the generic base, typing.Generic) says nothing about where the method is
    defined: ending the walk there returns the subclass as "defining class", type variables are then resolved at the
    wrong class and the declared return type is lost (class JetColl(Named, Coll[Jet]): get() -> T comes out as Any)."""
    run.rule(rule, "the MRO walk of get_method_and_class is ended only by a class that has a *different* attribute of that name, not by one that has none")
    fi = m.find_func("get_method_and_class", in_module="func_adl.util_types")
    from ..lib import view

    fv = view(m, fi)
    fa = TermCtx(m, max_depth=1).analysis(fv)
    loops = [n for n in own_nodes(fv) if isinstance(n, ast.For) and fa.cfg.has_node(n) and contains(strip_sites(fa.term_of(n.iter, fa.cfg.node_of(n))), lambda q: q[0] == "app" and q[1][0] == "global" and q[1][1].endswith("getmro") or (q[0] == "attr" and q[2] == "__mro__"))]
    run.floor(rule, len(loops), 1, "MRO walks in get_method_and_class")
    n = 0
    for lp in loops:
        # the walk ends early by returning the class found, or by leaving the loop for the return behind it
        for r in [x for x in ast.walk(lp) if (isinstance(x, ast.Return) and x.value is not None and not (isinstance(x.value, ast.Constant) and x.value.value is None)) or (isinstance(x, ast.Break) and fa.cfg.has_node(x))]:
            n += 1
            knows = False
            for a, pol in Facts(fa, r).atoms:
                if isinstance(a, ast.Compare) and len(a.ops) == 1 and isinstance(a.ops[0], ast.Is) and isinstance(a.comparators[0], ast.Constant) and a.comparators[0].value is None and not pol and fa.cfg.has_node(a.left):
                    t = strip_sites(fa.term_of(a.left))
                    if t[0] == "app" and t[1] == ("global", "builtins.getattr") and len(t[2]) >= 2 and t[2][0][0] == "elem":
                        knows = True  # this class's own attribute (not the one remembered from earlier classes)
            run.check(knows, rule, fi, r, "the walk ends at a class whose attribute is there and differs", "the walk over the MRO ends at the first class whose attribute is not the method found so far - including a class that has no such attribute at all (a mixin, typing.Generic): for class JetColl(Named, Coll[Jet]) the 'defining class' of get() is reported as JetColl, its type variable T is resolved at the wrong class, and e.a().get() is typed Any instead of Jet", "if m is None: continue", key="MRO walk ended by a class without the attribute")
    run.floor(rule, n, 1, "early returns of the MRO walk")


def check_typing_swap(run: Run, m, rule: str) -> None:
    """get_inherited re-parameterises the base a class inherits from. For the collections.abc interfaces it goes back to
    the typing alias of the same name (needed before python 3.11) - by *name*. A user's own generic class that happens
    to be called Collection, Sequence, Container, Set, List, Type .. is then swapped for typing's, and everything
    declared on it is lost (methods typed Any). The swap must know that the base comes from collections.abc."""
    from ..lib import unit

    run.rule(rule, "a base class is replaced by the typing alias of the same name only when it is a collections.abc class")
    gi = m.find_func("get_inherited", in_module="func_adl.util_types")
    n = 0
    for f in unit(m, gi):
        fa = TermCtx(m, max_depth=1).analysis(f)
        for x in own_nodes(f):
            if isinstance(x, ast.Subscript) and isinstance(x.ctx, ast.Load) and ast.unparse(x.value) in ("typing.__dict__", "vars(typing)") or (isinstance(x, ast.Call) and isinstance(x.func, ast.Name) and x.func.id == "getattr" and x.args and ast.unparse(x.args[0]) == "typing" and len(x.args) >= 2 and not isinstance(x.args[1], ast.Constant)):
                n += 1
                known = False
                for a, pol in Facts(fa, x).atoms:
                    if pol and isinstance(a, ast.Compare) and len(a.ops) == 1 and any(isinstance(y, ast.Attribute) and y.attr == "__module__" for y in ast.walk(a.left)):
                        c0 = a.comparators[0]
                        vals = [c0.value] if isinstance(c0, ast.Constant) else [e_.value for e_ in getattr(c0, "elts", []) if isinstance(e_, ast.Constant)]
                        if vals and all(v in ("collections.abc", "typing", "_collections_abc") for v in vals):
                            known = True
                run.check(known, rule, f, stmt_of(x), "the swap is made for collections.abc classes only", "a generic base class is replaced by the entry of the typing module that has the same *name*, whatever the class is: a user's own class Collection(Generic[T]) / Sequence / Container / Set .. becomes typing.Collection, the methods it declares are no longer found and calls on JetColl[Jet] are typed Any", "if r_base.__module__ == 'collections.abc' and r_base.__name__ in typing.__dict__", key="base class swapped for a typing alias by name")
    run.floor(rule, n, 1, "look-ups of a typing alias by name in get_inherited")


class _NoArgs:
    """the value of typing.get_args(t) for an un-parameterised alias: an empty tuple"""


def check_bare_iterable(run: Run, m, rule: str) -> None:
    """`def things(self) -> Iterable` is a legitimate annotation (PEP 484: Iterable[Any]). unwrap_iterable is walked with
    get_args(t) == (): it must come to `return Any`, not to a failing assert, an index into the empty tuple or a raise."""
    from ..lib import view

    run.rule(rule, "unwrap_iterable of an iterable type without a parameter (bare Iterable) is Any: walked with get_args(t) == ()")
    ui = view(m, m.find_func("unwrap_iterable", in_module="func_adl.util_types"))
    UNK = object()

    def ev(e, env):
        if isinstance(e, ast.Constant):
            return e.value
        if isinstance(e, ast.Name):
            return env.get(e.id, UNK)
        if isinstance(e, ast.Call) and ast.unparse(e.func).split(".")[-1] == "get_args":
            return ()
        if isinstance(e, ast.Call) and isinstance(e.func, ast.Name) and e.func.id in ("len", "bool", "list", "tuple") and len(e.args) == 1:
            v = ev(e.args[0], env)
            return UNK if v is UNK else {"len": len, "bool": bool, "list": list, "tuple": tuple}[e.func.id](v)
        if isinstance(e, ast.UnaryOp) and isinstance(e.op, ast.Not):
            v = ev(e.operand, env)
            return UNK if v is UNK else (not v)
        if isinstance(e, ast.BoolOp):
            vs = [ev(v, env) for v in e.values]
            if isinstance(e.op, ast.And):
                return False if any(v is not UNK and not v for v in vs) else (UNK if any(v is UNK for v in vs) else vs[-1])
            return True if any(v is not UNK and v for v in vs) else (UNK if any(v is UNK for v in vs) else vs[-1])
        if isinstance(e, ast.Compare) and len(e.ops) == 1:
            l, r = ev(e.left, env), ev(e.comparators[0], env)
            if l is UNK or r is UNK:
                return UNK
            o = e.ops[0]
            try:
                return {ast.Eq: l == r, ast.NotEq: l != r, ast.Lt: l < r, ast.LtE: l <= r, ast.Gt: l > r, ast.GtE: l >= r, ast.Is: l is r, ast.IsNot: l is not r}.get(type(o), UNK)
            except TypeError:
                return UNK
        if isinstance(e, ast.Subscript):
            v = ev(e.value, env)
            if v == () and not isinstance(e.slice, ast.Slice):
                raise IndexError
            return UNK
        if isinstance(e, ast.IfExp):
            t = ev(e.test, env)
            if t is UNK:
                return UNK
            return ev(e.body if t else e.orelse, env)
        return UNK

    def is_any(e):
        return e is not None and ast.unparse(e).split(".")[-1] == "Any"

    found = []

    def walk(body, env) -> bool:
        """True when the walk ended (return / failure recorded)"""
        for st in body:
            try:
                if isinstance(st, ast.Assign) and len(st.targets) == 1 and isinstance(st.targets[0], ast.Name):
                    env[st.targets[0].id] = ev(st.value, env)
                elif isinstance(st, ast.Assign) and len(st.targets) == 1 and isinstance(st.targets[0], (ast.Tuple, ast.List)):
                    if ev(st.value, env) == () and st.targets[0].elts:
                        found.append((st, "unpacks the (empty) argument tuple"))
                        return True
                elif isinstance(st, ast.Assert):
                    v = ev(st.test, env)
                    if v is not UNK and not v:
                        found.append((st, "asserts that the type has an argument"))
                        return True
                elif isinstance(st, ast.If):
                    v = ev(st.test, env)
                    if v is UNK:
                        if any(isinstance(x, (ast.Name, ast.Call)) and ev(x, env) == () for x in ast.walk(st.test)):
                            raise AnalysisError(f"unwrap_iterable: test on the type's arguments outside the recognised forms: {ast.unparse(st.test)[:80]}")
                        continue  # a test on something else (t is Any): both ways leave the arguments alone
                    if walk(st.body if v else st.orelse, env):
                        return True
                elif isinstance(st, ast.Raise):
                    found.append((st, "raises"))
                    return True
                elif isinstance(st, ast.Return):
                    if st.value is not None and any(isinstance(x, ast.Subscript) for x in ast.walk(st.value)):
                        ev(st.value, env)
                    v = ev(st.value, env) if st.value is not None else None
                    if is_any(st.value) or (isinstance(st.value, ast.IfExp) and v is UNK and is_any(st.value.body if ev(st.value.test, env) else st.value.orelse)):
                        found.append((st, None))
                    elif st.value is None or v is not UNK or any(isinstance(x, ast.Name) and env.get(x.id, UNK) == () for x in ast.walk(st.value)):
                        found.append((st, f"returns {ast.unparse(st.value)[:60] if st.value is not None else None}"))
                    else:
                        raise AnalysisError(f"unwrap_iterable: cannot tell what `{ast.unparse(st)[:80]}` gives for a type without arguments")
                    return True
                elif isinstance(st, ast.Try):
                    handlers = [h for h in st.handlers if h.type is None or any(n_ in ast.unparse(h.type) for n_ in ("IndexError", "LookupError", "Exception", "ValueError"))]
                    n0 = len(found)
                    try:
                        ended = walk(st.body, env)
                        failed = ended and found[n0:] and found[-1][1] is not None and handlers
                    except IndexError:
                        ended, failed = True, bool(handlers)
                        if not handlers:
                            raise
                    if failed:
                        del found[n0:]
                        if walk(handlers[0].body, env):
                            return True
                    elif ended:
                        return True
                elif isinstance(st, (ast.While, ast.For, ast.Expr)):
                    continue
                else:
                    raise AnalysisError(f"unwrap_iterable: statement outside the walked subset: {ast.unparse(st)[:60]}")
            except IndexError:
                found.append((st, "indexes the (empty) argument tuple"))
                return True
        return False

    if not walk(ui.node.body, {}):
        raise AnalysisError("unwrap_iterable: the walk with an empty argument tuple did not come to a return")
    st, why = found[-1]
    run.check(why is None, rule, ui, st, "a bare Iterable unwraps to Any", f"for an iterable type without a parameter unwrap_iterable {why}: a method annotated `-> Iterable` (PEP 484: Iterable[Any]) makes Count, First, Select, SelectMany and subscripting on its result fail with an internal error instead of giving element type Any", "if len(a) == 0: return Any", key="bare Iterable not unwrapped to Any")


def check_dataclass_members(run: Run, m, tt, rule: str) -> None:
    """An attribute of a dataclass-typed value that is not one of its *fields* may still be something the class defines - a
    method, a property, a class constant. Only a name the class does not have at all is the designed refusal ("key not
    found"); refusing every non-field makes e.eta() on a dataclass with methods a ValueError instead of a float."""
    from ..lib import view

    run.rule(rule, "an attribute of a dataclass-typed value is refused only when the class has no such attribute at all (methods and class-level names are not fields, and not errors)")
    va = tt.methods.get("visit_Attribute")
    if va is None:
        raise AnalysisError("anchor vanished: type_transformer.visit_Attribute")
    va = view(m, va)
    fa = TermCtx(m, max_depth=1, opaque={"lookup_type"}).analysis(va)
    n = 0
    for r in [x for x in own_nodes(va) if isinstance(x, ast.Raise)]:
        atoms = Facts(fa, r).atoms
        in_dc = any(pol and isinstance(a, ast.Call) and isinstance(a.func, ast.Name) and a.func.id == "is_dataclass" for a, pol in atoms)
        if not in_dc:
            continue
        n += 1
        no_attr = any((not pol) and isinstance(a, ast.Call) and isinstance(a.func, ast.Name) and a.func.id == "hasattr" and len(a.args) == 2 for a, pol in atoms)
        run.check(no_attr, rule, va, r, "the refusal is made only when the class has no attribute of that name", "every attribute of a dataclass-typed value that is not a *field* is refused as a missing key - also a method the dataclass defines: for @dataclass class DC: x: float; def eta(self) -> float, the call e.eta() raises ValueError('Key eta not found in dataclass') instead of being typed float and normalised", "if hasattr(dc, node.attr): return t_node  # a method, not a field", key="methods of a dataclass refused as missing keys")
    run.floor(rule, n, 1, "refusals in the dataclass branch of visit_Attribute")
