"""C17 - method-form and function-form queries are interchangeable (func_adl/ast/func_adl_ast_utils.py)."""
from __future__ import annotations

import ast

from ..lib import Facts, calls_in, name_call_name, own_nodes
from ..model import AnalysisError
from ..report import Run
from ..terms import TermCtx, show, strip_sites, strip_visits

EXPLANATION = (
    "transform_calls.visit_Call applies the rewrite to the generic_visit-ed node on every path (bottom-up, so at any depth, R1); the "
    "rewrite is guarded by 'callee is an Attribute whose attr is in the name list' (R2); its result is "
    "Call(Name(attr), [receiver] ++ args, keywords) with receiver first, arguments in order and keywords kept (R3); the result's "
    "callee is a Name, which the guard rejects, so a second application changes nothing (R4); every operator name the backend "
    "passes dispatch on in function form is in default_list_of_functions (R5)."
)
NOT_DECIDED = "evaluation equality on datasets (follows from R1-R3 under the convention that Op(seq, ..) means seq.Op(..))."


def check(run: Run) -> None:
    m = run.model
    outer = m.find_func("change_extension_functions_to_calls", in_module="func_adl.ast.func_adl_ast_utils")
    from ..lib import used_visitor

    classes = [used_visitor(m, TermCtx(m, max_depth=2), outer, True)]
    if len(classes) != 1:
        raise AnalysisError(f"expected one NodeTransformer inside change_extension_functions_to_calls, found {len(classes)}")
    cls = classes[0]
    fi = cls.methods.get("visit_Call")
    if fi is None:
        raise AnalysisError("anchor vanished: transform_calls.visit_Call")
    run.rule("C17.R1", "every return of visit_Call is the generic_visit-ed node or the rewrite of it (children first, all depths)")
    run.rule("C17.R2", "rewrite guarded by isinstance(func, ast.Attribute) and func.attr in function_names")
    run.rule("C17.R3", "rewrite == Call(Name(func.attr, Load), [func.value] ++ args, keywords)")
    run.rule("C17.R4", "rewrite's callee is an ast.Name (fixpoint by construction)")
    run.rule("C17.R5", "names dispatched on in function form by the simplifier / aggregate pass / collection API are in default_list_of_functions")
    ctx = TermCtx(m, max_depth=4)
    fa = ctx.analysis(fi)
    node_p = ("param", fi.pos_params[1])
    V = ("gvisit", node_p)
    n_rewrite = 0
    rets = fa.returns()
    run.floor("C17.R1", len(rets), 2, "returns of visit_Call")
    if any(p.kind != "return" for p, _ in fa.cfg.exit.pred):
        run.fail("C17.R1", fi, fi.node, "a path falls off the end of visit_Call (returns None: the call is deleted)")
    # the driver applies the transformer to the argument and returns its result
    ofa = ctx.analysis(outer)
    ort = strip_sites(ofa.return_term())
    run.check(ort == ("tvisit", cls.qual, ("param", outer.pos_params[0])), "C17.R1", outer, outer.node, "driver returns transform_calls().visit(a)", f"driver returns {show(ort)[:120]}", term=show(ort))
    for s, n in rets:
        t = strip_sites(fa.term_of(s.value, n)) if s.value is not None else ("const", None)
        for alt in (t[1] if t[0] == "phi" else [t]):
            if alt == V:
                run.ok("C17.R1", fi, "returns the generic_visit-ed node", show(alt))
                continue
            nc = name_call_name(alt)
            if nc is None:
                if alt == node_p or strip_visits(alt) == node_p and alt[0] != "gvisit":
                    run.fail("C17.R1", fi, s, "returns the call node without visiting its children: method-form calls nested below it are not rewritten", "node = self.generic_visit(call_node) before any return", show(alt))
                else:
                    run.fail("C17.R3", fi, s, f"unexpected result {show(alt)[:140]}", term=show(alt))
                continue
            n_rewrite += 1
            d = dict(alt[2])
            # R3 shape, relative to W = the visited node (in place: node itself after generic_visit also accepted)
            fid = dict(d["func"][2])["id"]
            ok_name = strip_visits(fid) == ("attr", ("attr", node_p, "func"), "attr")
            args = d.get("args")
            want_args = ("concat", ("list", (("attr", ("attr", V, "func"), "value"),)), ("attr", V, "args"))
            ok_args = args is not None and strip_visits(args) == strip_visits(want_args)
            kws = d.get("keywords")
            ok_kw = kws is not None and strip_visits(kws) == ("attr", node_p, "keywords")
            run.check(ok_name, "C17.R3", fi, s, "new callee is Name(func.attr)", f"new callee name is {show(fid)[:80]}, expected the method name func.attr", term=show(alt))
            run.check(ok_args, "C17.R3", fi, s, "arguments are [receiver] ++ args", f"arguments are {show(args)[:140]}, expected [func.value] ++ args (receiver first, order kept)", term=show(alt))
            run.check(ok_kw, "C17.R3", fi, s, "keywords are kept", f"keywords of the rewritten call are {show(kws)[:80]}, expected node.keywords: seq.Op(a, k=v) loses k=v", term=show(alt))
            run.ok("C17.R4", fi, "rewritten callee is an ast.Name, rejected by the Attribute guard")
            # the pieces must come from the *visited* node: generic_visit dominates
            uses_visited = _all_leaf_nodes_visited(alt, node_p)
            run.check(uses_visited, "C17.R1", fi, s, "rewrite is applied to the generic_visit-ed node", "the rewrite uses children of the un-visited call node: nested method-form calls are not rewritten", term=show(alt))
            # R2 guards
            fx = Facts(fa, s)
            g1 = fx.isinstance_of(("attr", V, "func"), {"ast.Attribute"}) or fx.isinstance_of(("attr", node_p, "func"), {"ast.Attribute"})
            g2 = _membership_fact(fa, fx, V, node_p, _names_terms(m, ctx, outer, cls, fi))
            run.check(g1, "C17.R2", fi, s, "guarded by callee is an ast.Attribute", "rewrite not guarded by isinstance(node.func, ast.Attribute)")
            run.check(g2, "C17.R2", fi, s, "guarded by func.attr in function_names", "rewrite not guarded by node.func.attr in function_names: non-operator methods are rewritten too")
    run.check(n_rewrite >= 1, "C17.R3", fi, fi.node, "a rewriting path exists", "no path builds the function-form call")
    # every other handler of the transformer must traverse its node (all depths)
    from ..visitors import dispatch_entries, unvisited_in_entry

    for other in dispatch_entries(m, cls):
        if other is fi:
            continue
        for s_, leaked, whole in unvisited_in_entry(ctx, other):
            run.fail("C17.R1", other, s_, f"{other.name} returns {show(leaked)} without visiting it: method-form operator calls anywhere below such a node (in the receiver chain, in lambdas among its arguments) stay in method form", "return self.generic_visit(node)", show(whole)[:200])
    extra = [n for n in cls.methods if n not in ("visit_Call",) and not n.startswith("visit_")]
    run.notes["transform_calls_methods"] = sorted(cls.methods)
    _table_agreement(run, m)


def _all_leaf_nodes_visited(t, node_p) -> bool:
    """every occurrence of the node parameter inside t sits under a gvisit/visit wrapper (or generic_visit
    dominates, which the term engine renders as GVisit(node))."""
    def go(x, under):
        if not isinstance(x, tuple):
            return True
        if x == node_p:
            return under
        if x and x[0] in ("gvisit", "visit"):
            return all(go(y, True) for y in x[1:])
        return all(go(y, under) for y in x)
    return go(t, False)


def _names_terms(m, ctx, outer, cls, fi):
    """the terms that, inside visit_Call, denote the list of names handed to change_extension_functions_to_calls"""
    from ..lib import carried_param_terms

    dflt = outer.node.args.defaults
    pos = outer.node.args.posonlyargs + outer.node.args.args
    pname = None
    for a_, d_ in zip(pos[len(pos) - len(dflt):], dflt):
        if isinstance(d_, ast.Name) and d_.id == "default_list_of_functions":
            pname = a_.arg
    if pname is None and len(outer.pos_params) >= 2:
        pname = outer.pos_params[1]
    return carried_param_terms(m, ctx, outer, cls, fi, pname)


def _membership_fact(fa, fx: Facts, V, node_p, names_terms) -> bool:
    for a, pol in fx.atoms:
        if isinstance(a, ast.Compare) and len(a.ops) == 1:
            op = type(a.ops[0])
            if (op is ast.In and pol) or (op is ast.NotIn and not pol):
                l = strip_sites(fa.term_of(a.left))
                r = strip_sites(fa.term_of(a.comparators[0]))
                if strip_visits(l) == ("attr", ("attr", node_p, "func"), "attr") and r in names_terms:
                    return True
    return False


def _table_agreement(run: Run, m) -> None:
    mod = m.module("func_adl.ast.func_adl_ast_utils")
    lst = m.find_assign("default_list_of_functions", mod.name)
    if not isinstance(lst, (ast.List, ast.Tuple)) or not all(isinstance(e, ast.Constant) and isinstance(e.value, str) for e in lst.elts):
        raise AnalysisError("default_list_of_functions is not a literal list of strings")
    table = {e.value for e in lst.elts}  # type: ignore
    outer = m.find_func("change_extension_functions_to_calls")
    # default parameter is the table
    dflt = outer.node.args.defaults
    run.check(any(isinstance(d, ast.Name) and d.id == "default_list_of_functions" for d in dflt), "C17.R5", outer, outer.node, "function_names defaults to default_list_of_functions", "function_names no longer defaults to default_list_of_functions")
    need = {}
    simp = m.find_class("simplify_chained_calls")
    for name, f in m.all_methods(simp).items():
        if name.startswith("call_") and f.cls is not None and f.cls.module.name.startswith("func_adl"):
            need[name[len("call_"):]] = f"simplify_chained_calls.{name}"
    for f in [x for x in m.funcs.values() if x.module.name == "func_adl.ast.function_simplifier"]:
        for c in calls_in(f):
            if isinstance(c.func, ast.Name) and c.func.id == "is_call_of" and len(c.args) == 2 and isinstance(c.args[1], ast.Constant):
                need[c.args[1].value] = f"is_call_of in {f.name}"
    from .c19 import shortcut_names

    for nm_ in sorted(shortcut_names(m)):
        if nm_ != "len":
            need[nm_] = "aggregate_node_transformer"
    need["Aggregate"] = "target of the aggregate lowering"
    coll = m.find_class("ObjectStreamInternalMethods")
    for name, f in coll.methods.items():
        if not name.startswith("_") and not f.is_property:
            need[name] = "ObjectStreamInternalMethods"
    for name in ("Select", "SelectMany", "Where"):
        need[name] = "ObjectStream operator"
    run.floor("C17.R5", len(need), 8, "operator names required in the table")
    # .. and every entry of the table is an operator the package knows under that name (two adjacent string literals merge
    # into one bogus entry when a comma is lost: "ResultAwkwardArray" "ResultPandasDF")
    vocab = set(need)
    for f in m.funcs.values():
        for c in calls_in(f):
            if isinstance(c.func, ast.Name) and c.func.id == "function_call" and c.args and isinstance(c.args[0], ast.Constant) and isinstance(c.args[0].value, str):
                vocab.add(c.args[0].value)
    os_cls = m.find_class("ObjectStream", in_module="func_adl.object_stream")
    vocab |= {n_ for n_ in os_cls.methods if not n_.startswith("_")}
    # names the stream class emits may reach function_call through a helper or a record: every identifier-like string
    # constant of object_stream.py counts (the table itself lives in another module)
    vocab |= {x.value for x in ast.walk(os_cls.module.tree) if isinstance(x, ast.Constant) and isinstance(x.value, str) and x.value.isidentifier()}
    for entry in sorted(table):
        run.check(entry in vocab, "C17.R5", outer, lst, f"table entry '{entry}' is the name of an operator of the package", f"'{entry}' in default_list_of_functions is not the name of any operator the package emits, dispatches on or defines: the operators it was meant to list (e.g. two names merged by a lost comma) stay in method form", key=f"table entry {entry!r} is no operator")
    for name, why in sorted(need.items()):
        run.check(name in table, "C17.R5", outer, lst, f"'{name}' ({why}) is in default_list_of_functions", f"operator '{name}' ({why}) is dispatched on in function form but missing from default_list_of_functions: seq.{name}(..) stays in method form")
