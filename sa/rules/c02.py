"""C02 - chained-call simplification preserves query results (function_simplifier.py, call_stack.py)."""
from __future__ import annotations

import ast

from .. import fusion
from ..lib import Facts, calls_in, len_eq, own_nodes, stmt_of
from ..model import AnalysisError, FuncInfo
from ..report import Run
from ..spec import canon, drop_sites, spec_function
from ..terms import subterms, root_of, TermCtx, contains, show, strip_sites, strip_visits, unphi_terms
from ..visitors import LAMBDA_ARG_KINDS

EXPLANATION = (
    "necessary conditions of a correct beta-reducer and of the nine fusion laws: (R1) each (outer, inner) branch of call_Select / "
    "call_SelectMany / call_Where builds exactly the term its LINQ law prescribes (source from the visited parent, g after f, f-then-g "
    "conjunction, Where hoisted below Select, g moved under a *fresh* copy of f's binder), dispatching on the visited source; convolute "
    "builds lambda x: g'(f'(x)) with x fresh and both operands made unique; (R2) every binder the simplifier introduces comes from "
    "arg_name(), whose counter only grows; make_args_unique works on a deep copy and renames through a shadow-aware stack; (R3) called "
    "lambdas are reduced only for plain positional calls, arguments are visited before the callee's frame is pushed, frames are "
    "pushed/popped in pairs, lookup is innermost-first, and a lambda's own parameters (all five kinds) shadow pending substitutions; "
    "(R3e) substitution under a binder must not capture free names of the substituted argument."
    " (R3f) the names a call frame binds are fresh (make_args_unique / arg_name): the fusion rules visit text that was already substituted, and with fresh keys it cannot be substituted twice - which also makes the moment at which arguments are visited (R3a) immaterial; (R5) projection out of a dictionary literal with repeated (equal) constant keys selects the last entry, as python does."
    " (R2, round 10) the renamer of make_args_unique hides the names of all five parameter kinds of nested lambdas."
)
NOT_DECIDED = "value equality of original and simplified query on datasets; termination of the rewriting."

SPEC_CONVOLUTE = '''
def convolute(ast_g, ast_f):
    x = arg_name()
    return lambda_build(x, ast.Call(make_args_unique(lambda_unwrap(ast_g)), [ast.Call(make_args_unique(lambda_unwrap(ast_f)), [ast.Name(x, ast.Load())], [])], []))
'''
SPEC_MAKE_SELECT = '''
def make_Select(source, selection):
    return source if lambda_is_identity(selection) else function_call("Select", [source, selection])
'''
SPEC_LOOKUP = '''
def lookup_name(self, name, default=None):
    for frames in reversed(self.FRAMES_ATTR):
        if name in frames:
            return frames[name]
    return default
'''


def check(run: Run) -> None:
    m = run.model
    run.rule("C02.R1", "fusion-table conformance of every (outer, inner) branch; convolute == lambda x: g'(f'(x)); make_Select; dispatch on the visited source")
    run.rule("C02.R2", "new binders come from arg_name() (monotone counter) or from make_args_unique; make_args_unique: deepcopy, paired push/pop, innermost-first lookup")
    run.rule("C02.R3a", "arguments of a called lambda are visited before the callee's frame is pushed")
    run.rule("C02.R3b", "define_name only inside `with stack_frame(..)`; __enter__/__exit__ pair push/pop; lookup innermost-first; define in the top frame")
    run.rule("C02.R3c", "beta-reduction guarded: no keywords, no starred, no defaults/varargs/kw-only/pos-only, positional count == parameter count")
    run.rule("C02.R3d", "visit_Lambda shadows all five parameter kinds for the extent of the body")
    run.rule("C02.R3e", "descending under a binder with substitutions pending renames the binder (or proves arguments closed): no capture")
    run.rule("C02.R3f", "the names a call frame binds are fresh (make_args_unique'd parameters): text already substituted is visited again by the fusion rules and must not meet its own parameter name")
    ctx = TermCtx(m, opaque=fusion.OPAQUE, identity={"lambda_unwrap"}, max_depth=5)
    mod = "func_adl.ast.function_simplifier"
    cls = m.find_class("simplify_chained_calls", in_module=mod)

    # ---------------- R1
    recs = fusion.compare(m, ctx)
    run.floor("C02.R1", len(recs), 11, "fusion branches")
    for r in recs:
        what = f"{r['entry']} branch {r['branch']}"
        if r["kind"] in ("ok", "visit"):
            run.ok("C02.R1", r["impl"], f"{what} builds the term of its fusion law", show(r["term"])[:300])
        else:
            run.fail("C02.R1", r["impl"], r["stmt"], f"{what}: {r['why']}", "the LINQ fusion law for this operator pair (sa/fusion.py)", show(r["term"])[:400] if r.get("term") is not None else "")
    for name, src in (("convolute", SPEC_CONVOLUTE), ("make_Select", SPEC_MAKE_SELECT)):
        impl = m.find_func(name, in_module=mod)
        _spec_equal(run, ctx, m, impl, src, mod, None, "C02.R1")
    run.check("convolute" in fusion.OPAQUE, "C02.R1", None, None, "convolute is compared as a unit and checked against its own specification")

    # ---------------- R2: fresh binders
    arg_name = m.find_func("arg_name", in_module=mod)
    _check_arg_name(run, m, arg_name)
    n_builds = 0
    from ..lib import call_events, call_sites_of

    for fi in [f for f in m.funcs.values() if f.module.name == mod]:
        if fi.name.startswith("_") and not fi.name.startswith("__") and call_sites_of(m, fi):
            continue  # a private helper: its lambda_build calls are judged, with the arguments bound, at its callers
        for ev in call_events(ctx, fi, lambda nm: nm == "lambda_build"):
            if ev.args:
                c = ev.call
                n_builds += 1
                t = ev.args[0]
                ok = all(_is_fresh_name(a) for a in unphi_terms(t))
                run.check(ok, "C02.R2", fi, stmt_of(c) if ev.owner is fi else fi.node, "binder of a newly built lambda is fresh", f"a new lambda is built with binder {show(t)[:100]}, which is neither arg_name() nor a make_args_unique'd parameter: a free name of the lambda moved under it can be captured", "arg_name()", show(t))
    run.floor("C02.R2", n_builds, 5, "lambda_build sites in the simplifier")
    _check_make_args_unique(run, ctx, m)

    # ---------------- R5: literal projection keeps python's choice among repeated keys
    run.rule("C02.R5", "projection out of a dictionary literal with repeated (equal) constant keys selects the last entry, as python does")
    from .c18 import check_last_key_wins

    check_last_key_wins(run, ctx, m, cls, "C02.R5")

    # ---------------- R3
    vc = cls.methods.get("visit_Call")
    if vc is None:
        raise AnalysisError("anchor vanished: simplify_chained_calls.visit_Call")
    _check_beta(run, ctx, m, cls, vc)
    _check_call_stack(run, ctx, m)
    vn = cls.methods.get("visit_Name")
    if vn is None:
        raise AnalysisError("anchor vanished: simplify_chained_calls.visit_Name")
    fa = ctx.analysis(vn)
    rt = strip_sites(fa.return_term())
    nodep = ("param", vn.pos_params[1])
    stack = ("attr", ("param", vn.pos_params[0]), _init_attr(ctx, m, cls, lambda t: t[0] in ("app", "new") and "argument_stack" in show(t)[:60], "the substitution stack of simplify_chained_calls"))
    lk = m.find_func("lookup_name", in_class="argument_stack")
    lk_spec = spec_function(m, SPEC_LOOKUP.replace("FRAMES_ATTR", _frames_attr(ctx, m)), "func_adl.ast.call_stack", "argument_stack")
    want = canon(ctx.analysis(lk_spec).return_term(), lk_spec.pos_params)
    got = canon(ctx.analysis(lk).return_term(), lk.pos_params)
    from ..spec import first_match_as_search

    from ..lib import mentions_generator as _mg

    if first_match_as_search(drop_sites(got)) != drop_sites(want) and _mg(m, got):
        raise AnalysisError(f"lookup_name searches the frames through the generator {_mg(m, got)}(..): in which order they are tried cannot be read from this shape")
    run.check(first_match_as_search(drop_sites(got)) == drop_sites(want), "C02.R3b", lk, lk.node, "lookup_name searches frames innermost-first and falls back to the default", f"lookup_name computes {show(got)[:160]}; expected innermost-first search {show(want)[:120]}: a shadowed outer definition can win", term=show(got))
    # visit_Name == stack.lookup_name(node.id, default=node)
    from ..terms import subst

    # `found = lookup(id, default=SENTINEL); return node if found is SENTINEL else found` is the lookup with the node as default
    if rt[0] == "ifexp" and rt[1][0] == "op" and rt[1][1] in ("Compare:Is", "Compare:IsNot") and len(rt[1][2]) == 2:
        l_, s_ = rt[1][2]
        hit, miss = (rt[3], rt[2]) if rt[1][1] == "Compare:Is" else (rt[2], rt[3])
        if l_[0] == "app" and s_[0] == "global" and hit == l_ and isinstance(m.assign_value(vn.module, s_[1].split(".")[-1]) if hasattr(m, "assign_value") else vn.module.assigns.get(s_[1].split(".")[-1]), ast.Call):
            kw_ = tuple((k, (miss if v == s_ else v)) for k, v in l_[3])
            pos_ = tuple(miss if v == s_ else v for v in l_[2])
            if (kw_, pos_) != (l_[3], l_[2]):
                rt = ("app", l_[1], pos_, kw_)
    ok_vn = rt[0] == "app" and rt[1] == ("attr", stack, "lookup_name")
    if ok_vn:
        pos = list(rt[2]) + [None, None]
        kw = dict(rt[3])
        ok_vn = pos[0] == ("attr", nodep, "id") and (kw.get("default") == nodep or pos[1] == nodep)
    run.check(ok_vn, "C02.R3b", vn, vn.node, "visit_Name looks the name's id up in the argument stack and defaults to the node itself", f"visit_Name returns {show(rt)[:160]}", term=show(rt))

    # R3d / R3e
    vl = cls.methods.get("visit_Lambda")
    if vl is None:
        run.fail("C02.R3d", vc, cls.node, "simplify_chained_calls has no visit_Lambda: parameters of a nested lambda do not shadow the arguments of a lambda call being reduced", "a visit_Lambda that pushes a frame defining the lambda's own parameters")
    else:
        _check_shadow_lambda(run, ctx, m, vl, "C02")


def _spec_equal(run, ctx, m, impl: FuncInfo, src: str, module: str, cls, rule: str) -> None:
    spec = spec_function(m, src, module, cls)
    want = canon(ctx_no_opaque(ctx, m, impl.name).analysis(spec).return_term(), spec.pos_params)
    from ..terms import splice_literals as _splice

    got = canon(_splice(ctx_no_opaque(ctx, m, impl.name).analysis(impl).return_term()), impl.pos_params)
    from ..fusion import _first_diff, _same_sharing

    ok = drop_sites(got) == drop_sites(want) and _same_sharing(got, want)
    run.check(ok, rule, impl, impl.node, f"{impl.name} computes its specification term", f"{impl.name}: " + (_first_diff(drop_sites(got), drop_sites(want)) or "the pattern of shared fresh names differs (a name generated once must be used for both the binder and its uses)"), show(want)[:300], show(got)[:400])


def ctx_no_opaque(ctx: TermCtx, m, name: str) -> TermCtx:
    c = getattr(ctx, "_unit_ctx", None)
    if c is None:
        c = TermCtx(m, opaque=set(ctx.opaque) - {"convolute"}, identity={"lambda_unwrap"}, max_depth=ctx.max_depth)
        ctx._unit_ctx = c  # type: ignore
    return c


def _is_fresh_name(t) -> bool:
    if t[0] == "app" and t[1][0] == "global" and t[1][1].endswith(".arg_name"):
        return True
    # <make_args_unique(..)>.args.args[0].arg
    x = t
    if x[0] == "attr" and x[2] == "arg":
        x = x[1]
        while x[0] in ("attr", "index"):
            x = x[1]
        return x[0] == "app" and x[1][0] == "global" and x[1][1].endswith(".make_args_unique")
    return False


def _check_arg_name(run: Run, m, fi: FuncInfo) -> None:
    mod = fi.module
    counter = [n for n in own_nodes(fi) if isinstance(n, ast.Global)]
    names = set(counter[0].names) if counter else set()
    run.check(len(names) == 1, "C02.R2", fi, fi.node, "arg_name uses one module-level counter", f"arg_name declares globals {sorted(names)}")
    if len(names) != 1:
        return
    cn = next(iter(names))
    incs = [n for n in own_nodes(fi) if isinstance(n, ast.AugAssign) and isinstance(n.target, ast.Name) and n.target.id == cn]
    ok_inc = len(incs) == 1 and isinstance(incs[0].op, ast.Add) and isinstance(incs[0].value, ast.Constant) and incs[0].value.value == 1
    other = [n for n in own_nodes(fi) if isinstance(n, ast.Assign) and any(isinstance(t, ast.Name) and t.id == cn for t in n.targets)]
    run.check(ok_inc and not other, "C02.R2", fi, incs[0] if incs else fi.node, "the counter is incremented by exactly 1 and never otherwise written", "the fresh-name counter is not strictly increasing: generated names can repeat")
    from ..cfg import cfg_of

    cfg = cfg_of(fi.node)
    if ok_inc:
        inc_node = cfg.node_of(incs[0])
        counts = {sum(1 for x in p if x is inc_node) for p in cfg.paths()}
        run.check(counts == {1}, "C02.R2", fi, incs[0], "increment happens exactly once on every path", f"increment count per path {sorted(counts)}")
    # the returned name is formatted from the counter value read before the increment, and depends on nothing else
    rets = [n for n in own_nodes(fi) if isinstance(n, ast.Return)]
    ok_ret = False
    for r in rets:
        v = r.value
        src = None
        if isinstance(v, ast.Name):
            asg = [n for n in own_nodes(fi) if isinstance(n, ast.Assign) and any(isinstance(t, ast.Name) and t.id == v.id for t in n.targets)]
            if len(asg) == 1:
                src = asg[0]
        if src is not None and any(isinstance(x, ast.Name) and x.id == cn for x in ast.walk(src.value)) and incs and src.lineno < incs[0].lineno:
            ok_ret = True
    run.check(ok_ret, "C02.R2", fi, fi.node, "the returned name embeds the counter value read before the increment", "arg_name does not return a name derived from the pre-increment counter")
    # nobody else writes the counter
    for f2 in m.funcs.values():
        if f2 is fi:
            continue
        for n in own_nodes(f2):
            if isinstance(n, (ast.Assign, ast.AugAssign)):
                tg = n.targets if isinstance(n, ast.Assign) else [n.target]
                if any(isinstance(t, ast.Name) and t.id == cn for t in tg) and any(isinstance(g, ast.Global) and cn in g.names for g in own_nodes(f2)):
                    run.fail("C02.R2", f2, n, f"{f2.name} writes the fresh-name counter {cn}: generated names can repeat")


def _check_make_args_unique(run: Run, ctx, m) -> None:
    mau = m.find_func("make_args_unique", in_module="func_adl.ast.function_simplifier")
    fa = ctx_no_opaque(ctx, m, "x").analysis(mau)
    rt = strip_sites(fa.return_term())
    arg = ("param", mau.pos_params[0])
    ok = rt[0] == "tvisit" and rt[2] == ("app", ("global", "copy.deepcopy"), (arg,), ())
    run.check(ok, "C02.R2", mau, mau.node, "make_args_unique renames inside a deep copy of the lambda", f"make_args_unique returns {show(rt)[:120]}: the caller's lambda is modified in place or shares nodes with the renamed copy", "replace_args().visit(copy.deepcopy(a))", show(rt))
    from ..lib import used_visitor

    classes = [used_visitor(m, ctx, mau, True)]
    if len(classes) != 1:
        raise AnalysisError("make_args_unique no longer contains one transformer")
    rc = classes[0]
    vl, vn = rc.methods.get("visit_Lambda"), rc.methods.get("visit_Name")
    if vl is not None:
        from ..normalise import unrolled

        vl = unrolled(m, vl)  # the work may sit in a private helper visit_Lambda ends with
    if vl is None or vn is None:
        raise AnalysisError("replace_args lost visit_Lambda / visit_Name")
    fl = ctx.analysis(vl)
    class _Op:
        """a push / pop on a list attribute of self: x.append(e) in a loop, x.extend(seq), x += seq, x.pop() in a loop"""

        def __init__(self, kind, recv, node, seq=None):
            self.kind, self.recv, self.node, self.seq = kind, recv, node, seq

    def _bulk(op):
        """(CFG anchor, term whose length is the number of stack entries moved) for a push / pop operation"""
        cfg_ = fl.cfg
        if op.seq is not None:
            return cfg_.node_of(op.node), strip_sites(fl.term_of(op.seq))
        lp_ = _loop_head(cfg_, op.node, vl)
        if lp_ is None:
            return None
        it_ = lp_.iter
        if isinstance(it_, ast.Attribute):
            # a field that was just assigned (r.args.args = [.. for .. in mapping]; for _ in r.args.args): its length is the value's
            txt = ast.unparse(it_)
            defs = [n for n in own_nodes(vl) if isinstance(n, ast.Assign) and len(n.targets) == 1 and ast.unparse(n.targets[0]) == txt and cfg_.has_node(n) and cfg_.dominates(cfg_.node_of(n), cfg_.node_of(lp_))]
            if len(defs) == 1:
                return cfg_.node_of(lp_), strip_sites(fl.term_of(defs[0].value, cfg_.node_of(defs[0])))
        return cfg_.node_of(lp_), strip_sites(fl.term_of(it_, cfg_.node_of(lp_)))

    selfp_ = ("param", vl.pos_params[0])
    stack_ops = []
    for c in calls_in(vl):
        if isinstance(c.func, ast.Attribute) and c.func.attr in ("append", "extend", "pop") and fl.cfg.has_node(c):
            rt_ = strip_sites(fl.term_of(c.func.value))
            if rt_[0] == "attr" and rt_[1] == selfp_:
                stack_ops.append(_Op("pop" if c.func.attr == "pop" else "push", rt_, c, c.args[0] if c.func.attr == "extend" and len(c.args) == 1 else None))
    for n in own_nodes(vl):
        if isinstance(n, ast.AugAssign) and isinstance(n.op, ast.Add) and isinstance(n.target, ast.Attribute) and fl.cfg.has_node(n):
            rt_ = strip_sites(fl.term_of(n.target.value))
            if rt_ == selfp_:
                stack_ops.append(_Op("push", ("attr", selfp_, n.target.attr), n, n.value))
    by_stack = {}
    for o in stack_ops:
        by_stack.setdefault(o.recv, []).append(o)
    # the renaming stack is the attribute that is both pushed to and popped from
    cands = [v for v in by_stack.values() if any(o.kind == "pop" for o in v)]
    ops = cands[0] if len(cands) == 1 else []
    if not stack_ops:
        # nothing is appended to / popped from an attribute of the transformer: when it also owns no list at all, the
        # renamings are kept in some other structure (linked frames, re-bound tuples) that this rule cannot read
        init_ = vl.cls.methods.get("__init__") if vl.cls is not None else None
        has_list = init_ is not None and any(isinstance(n_, ast.Assign) and isinstance(n_.targets[0], ast.Attribute) and isinstance(n_.value, (ast.List, ast.Dict, ast.Set)) or (isinstance(n_, ast.Assign) and isinstance(n_.value, ast.Call) and isinstance(n_.value.func, ast.Name) and n_.value.func.id in ("list", "dict", "set", "deque")) for n_ in own_nodes(init_))
        if not has_list:
            raise AnalysisError("replace_args keeps its renamings in something other than a list / dict / set it owns (linked frames, re-bound tuples, ..): the scoping discipline of visit_Lambda cannot be read")
    pushes = [o for o in ops if o.kind == "push"]
    pops = [o for o in ops if o.kind == "pop"]
    gvs = [c for c in calls_in(vl) if isinstance(c.func, ast.Attribute) and c.func.attr == "generic_visit"]
    ok_order = len(pushes) >= 1 and len(pops) == 1 and len(gvs) == 1
    pb = qb = None
    pbs = []
    if ok_order:
        cfg = fl.cfg
        gn = cfg.node_of(gvs[0])
        pbs = [_bulk(p_) for p_ in pushes]
        qb = _bulk(pops[0])
        ok_order = all(x_ is not None for x_ in pbs) and qb is not None
        if ok_order:
            ok_order = all(cfg.dominates(x_[0], gn) and x_[0] is not gn for x_ in pbs) and cfg.dominates(gn, qb[0]) and cfg.postdominates(qb[0], gn) and qb[0] is not gn
            pb = pbs[0]
    from ..lib import pop_is_lifo

    for o_ in pops:
        if isinstance(o_.node, ast.Call):
            run.check(pop_is_lifo(o_.node), "C02.R2", vl, stmt_of(o_.node), "the renaming removed is the newest one", f"{ast.unparse(o_.node)} removes another entry than the newest: the renaming of an enclosing lambda's parameter is dropped while its body is still being renamed", ".pop()")
    run.check(ok_order, "C02.R2", vl, vl.node, "renaming frames are pushed before and popped after the body is visited, on every path", "replace_args.visit_Lambda does not pair its pushes and pops around generic_visit: renamings leak out of (or are missing inside) the lambda's scope")
    if ok_order:
        n_push, n_pop = pb[1], qb[1]

        def _parts(t_):
            # a + b (list concatenation): the lengths add up
            if t_[0] == "op" and t_[1] == "Add" and len(t_[2]) == 2:
                return _parts(t_[2][0]) + _parts(t_[2][1])
            if t_[0] == "concat":
                return [y_ for x_ in t_[1:] for y_ in _parts(x_)] if all(isinstance(x_, tuple) for x_ in t_[1:]) else [t_]
            return [t_]

        push_parts = sorted(repr(_len_source(y_)) for x_ in pbs for y_ in _parts(x_[1]))
        pop_parts = sorted(repr(_len_source(y_)) for y_ in _parts(n_pop))
        same_len = (push_parts == pop_parts and "None" not in push_parts) or (_len_source(n_push) == _len_source(n_pop) and _len_source(n_push) is not None and len(pbs) == 1)
        run.check(same_len, "C02.R2", vl, stmt_of(pops[0].node), "as many pops as pushes", f"pushes iterate over {show(n_push)[:80]} but pops over {show(n_pop)[:80]}")
    # fresh names for the first lambda, identity (shadow) for nested ones
    from ..lib import unit as _unit

    fresh = [c for f_ in _unit(m, vl) for c in calls_in(f_) if isinstance(c.func, ast.Name) and c.func.id == "arg_name"]
    if not fresh:
        # the name source handed to the renamer at construction: arg_name itself or `lambda: arg_name()`
        init = rc.methods.get("__init__")
        if init is not None and len(init.pos_params) >= 2:
            for c in calls_in(vl):
                if isinstance(c.func, ast.Attribute) and isinstance(c.func.value, ast.Name) and c.func.value.id == vl.pos_params[0] and not c.args:
                    attr = c.func.attr
                    src = [n_ for n_ in own_nodes(init) if isinstance(n_, ast.Assign) and len(n_.targets) == 1 and isinstance(n_.targets[0], ast.Attribute) and n_.targets[0].attr == attr and isinstance(n_.value, ast.Name) and n_.value.id in init.pos_params[1:]]
                    stores_ = [x for f_ in rc.methods.values() for x in own_nodes(f_) if isinstance(x, ast.Attribute) and x.attr == attr and isinstance(x.ctx, ast.Store)]
                    if len(src) != 1 or len(stores_) != 1:
                        continue
                    k_ = init.pos_params.index(src[0].value.id) - 1
                    for cc in calls_in(mau):
                        if isinstance(cc.func, ast.Name) and cc.func.id == rc.name and k_ < len(cc.args):
                            a_ = cc.args[k_]
                            if (isinstance(a_, ast.Name) and a_.id == "arg_name") or (isinstance(a_, ast.Lambda) and not a_.args.args and isinstance(a_.body, ast.Call) and isinstance(a_.body.func, ast.Name) and a_.body.func.id == "arg_name" and not a_.body.args):
                                fresh.append(c)
    run.check(len(fresh) >= 1, "C02.R2", vl, vl.node, "outermost lambda gets arg_name() names", "replace_args no longer draws new names from arg_name()")
    # every kind of parameter of a nested lambda re-binds its name: all five are put on the renaming stack (D42)
    from ..lib import attrs_in_call_closure as _aicc

    kinds_ = _aicc(m, vl, LAMBDA_ARG_KINDS)
    missing_ = [k for k in LAMBDA_ARG_KINDS if k not in kinds_]
    run.check(not missing_, "C02.R2", vl, vl.node, "replace_args.visit_Lambda hides the names of all five parameter kinds", f"replace_args.visit_Lambda never looks at the lambda's {', '.join(missing_)}: a nested lambda that re-binds a name through such a parameter does not hide it, so the renaming reaches into its body ((lambda a: (lambda *a: a)(1))(5) becomes (lambda *a: 5)(1))", "posonlyargs + args + kwonlyargs + vararg + kwarg", key="renamer ignores parameter kinds")
    # new arg list built from the mapping's new names
    stores = [n for n in own_nodes(vl) if isinstance(n, ast.Assign) and any(isinstance(t, ast.Attribute) and t.attr == "args" for t in n.targets)]
    run.check(len(stores) == 1, "C02.R2", vl, vl.node, "the lambda's parameter list is rebuilt from the new names", "replace_args.visit_Lambda does not rebuild the parameter list")
    # visit_Name: innermost-first
    src = ast.unparse(vn.node)
    loops = [n for n in own_nodes(vn) if isinstance(n, ast.For)]
    fn0 = ctx.analysis(vn)
    rt0 = strip_sites(fn0.return_term())
    stack_attrs = {o.recv[2] for o in ops} if ops else set()
    vself = ("param", vn.pos_params[0])

    def _is_stack(t):
        return t[0] == "attr" and t[1] == vself and (not stack_attrs or t[2] in stack_attrs)

    # the mapping is looked up in reversed(stack) - as a loop or as next(<generator over it>) - and nowhere in stack order
    rev = contains(rt0, lambda s_: s_[0] == "app" and s_[1] == ("global", "builtins.reversed") and len(s_[2]) == 1 and _is_stack(s_[2][0]))
    fwd = contains(rt0, lambda s_: s_[0] == "elem" and _is_stack(s_[1])) or contains(rt0, lambda s_: s_[0] == "comp" and any(_is_stack(g_[0]) for g_ in s_[3]))
    ok_rev = rev and not fwd
    from ..lib import mentions_generator as _mg2

    if not ok_rev and _mg2(m, rt0):
        raise AnalysisError(f"replace_args.visit_Name finds the renaming through the generator {_mg2(m, rt0)}(..): in which order the stack is searched cannot be read from this shape")
    run.check(ok_rev, "C02.R2", vn, loops[0] if loops else vn.node, "replace_args.visit_Name searches the stack innermost-first", "renaming lookup is not innermost-first: an inner lambda re-using an outer name is renamed with the outer mapping")
    fn = ctx.analysis(vn)
    rt = strip_sites(fn.return_term())
    nodep = ("param", vn.pos_params[1])
    alts = unphi_terms(rt)
    ok_ret = nodep in alts and any(a[0] == "new" and a[1] == "Name" for a in alts) and len(alts) == 2
    run.check(ok_ret, "C02.R2", vn, vn.node, "visit_Name returns a new Name for a mapped id, the node otherwise", f"replace_args.visit_Name returns {show(rt)[:120]}")


def _loop_head(cfg, call: ast.Call, fi: FuncInfo):
    from ..model import ancestors

    for a in ancestors(call):
        if isinstance(a, ast.For):
            return a
        if isinstance(a, (ast.FunctionDef, ast.AsyncFunctionDef)):
            return None
    return None


def _len_source(t):
    """what a loop iterates over, reduced to the list whose length drives it (mapping built by a
    comprehension over node.args.args has that list's length)."""
    seen = 0
    while seen < 6:
        seen += 1
        if t[0] == "phi":
            srcs = {_len_source(a) for a in t[1]}
            return srcs.pop() if len(srcs) == 1 else None
        if t[0] == "ifexp":
            srcs = {_len_source(t[2]), _len_source(t[3])}
            return srcs.pop() if len(srcs) == 1 else None
        if t[0] == "comp" and len(t[3]) == 1:
            t = t[3][0][0]
            continue
        return t
    return None


def _check_beta(run: Run, ctx0, m, cls, vc: FuncInfo) -> None:
    from ..lib import call_events, site_owner

    # the shape rules (R3a-R3c) read the reduction with "parameters renamed to fresh names" seen through
    ctx = TermCtx(m, opaque=set(ctx0.opaque) - {"make_args_unique"}, identity=set(ctx0.identity) | {"make_args_unique"}, max_depth=ctx0.max_depth)
    # the reduction may live in visit_Call or in a private helper it hands the call node to
    from ..lib import view as _view_b

    vc = _view_b(m, vc, keep=("select_method_call_on_first",))  # a dispatch by kind (getattr(self, "_visit_Call_" + kind)) read as its if-chain
    vc0 = vc
    vc, inv = site_owner(m, ctx, vc0, "stack_frame")
    nodep = ("param", vc0.pos_params[1])
    if vc is not vc0:
        if nodep not in inv:
            raise AnalysisError(f"{vc.name} does not receive the call node of visit_Call")
        nodep = inv[nodep]
    fa = ctx.analysis(vc)
    cfg = fa.cfg
    withs = [n for n in own_nodes(vc) if isinstance(n, ast.With) and any(isinstance(it.context_expr, ast.Call) and isinstance(it.context_expr.func, ast.Name) and it.context_expr.func.id == "stack_frame" for it in n.items)]
    def_events = call_events(ctx, vc, lambda nm: nm == "define_name")
    run.check(len(withs) == 1 and len(def_events) >= 1, "C02.R3b", vc, vc.node, "visit_Call reduces inside one `with stack_frame(..)`", f"{len(withs)} stack_frame blocks / {len(def_events)} define_name calls in visit_Call")
    if len(withs) != 1:
        return
    w = withs[0]
    inside = {id(x) for x in ast.walk(w)}

    class _D:
        """a define_name call, seen from the function that owns the frame"""

        def __init__(self, ev):
            self.ev = ev
            self.args = ev.args
            self.at = stmt_of(ev.call) if ev.owner is vc else ev.site.stmt
            self.inside = (id(ev.call) in inside) if ev.owner is vc else (ev.site.stmt is not None and id(ev.site.stmt) in inside)

    defines = [_D(e) for e in def_events]
    for d in defines:
        run.check(d.inside, "C02.R3b", vc, d.at, "define_name happens inside the stack frame", "a parameter is defined outside `with stack_frame`: the binding outlives the call being reduced")
    # R3a: arguments are visited, and visited before the callee's frame is pushed
    body_t = ("attr", ("attr", nodep, "func"), "body")
    arg_elem = ("visit", ("elem", ("attr", nodep, "args")))
    # With fresh frame keys (R3f) an argument may just as well be visited inside the frame - nothing in it can be
    # one of the keys; with the lambda's own parameter names as keys the order decides which binder a name meets.
    keys_fresh = _check_fresh_frame_keys(run, ctx0, m, cls, vc, w)
    for c in calls_in(vc):
        if isinstance(c.func, ast.Attribute) and c.func.attr == "visit" and c.args and id(c) in inside and fa.cfg.has_node(c):
            t = strip_sites(fa.term_of(c.args[0]))
            if keys_fresh and t != body_t:
                run.ok("C02.R3a", vc, "argument visited inside a frame whose keys are fresh names", show(t)[:80])
                continue
            run.check(t == body_t, "C02.R3a", vc, stmt_of(c), "inside the callee's frame only the lambda body is visited", f"{show(t)[:80]} is visited inside the callee's frame: if it is (part of) an argument, names in it that coincide with parameters already defined are resolved against the callee's bindings instead of the caller's", "arg_asts = [self.visit(a) for a in call_node.args] before `with stack_frame`", show(t))
    def _through_pairs(t):
        """iterating (e(x) for x in xs) gives e(x): a loop variable that ranges over an unfiltered generator / list of
        pairs built for the purpose is read as the pair it stands for"""
        if isinstance(t, tuple) and t:
            t = tuple(_through_pairs(x) for x in t)
            if len(t) == 2 and t[0] == "elem" and isinstance(t[1], tuple) and len(t[1]) == 4 and t[1][0] == "comp" and len(t[1][3]) == 1 and not t[1][3][0][1]:
                return t[1][2]
            if len(t) == 3 and t[0] == "index" and isinstance(t[1], tuple) and len(t[1]) == 2 and t[1][0] == "tuple" and isinstance(t[2], int) and 0 <= t[2] < len(t[1][1]):
                return t[1][1][t[2]]
        return t

    def _zip_side(t):
        """(zip term, side) if t is the side-th component of one element of zip(A, B)"""
        if isinstance(t, tuple) and len(t) == 3 and t[0] == "index" and isinstance(t[1], tuple) and len(t[1]) == 2 and t[1][0] == "elem" and isinstance(t[1][1], tuple) and t[1][1][:2] == ("app", ("global", "builtins.zip")) and len(t[1][1][2]) == 2 and t[2] in (0, 1):
            return t[1][1], t[2]
        return None

    def _visited_args(t) -> bool:
        """t is the list / generator of the call's arguments, each visited: [self.visit(a) for a in call.args], map(self.visit, call.args), list(..) of these"""
        while t[0] == "app" and t[1] in (("global", "builtins.list"), ("global", "builtins.tuple")) and len(t[2]) == 1:
            t = t[2][0]
        if t[0] == "comp" and len(t[3]) == 1 and not t[3][0][1]:
            return t[2] == arg_elem and t[3][0][0] == ("attr", nodep, "args")
        if t[0] == "app" and t[1] == ("global", "builtins.map") and len(t[2]) == 2:
            f_, xs_ = t[2]
            return xs_ == ("attr", nodep, "args") and f_[0] == "attr" and f_[2] == "visit" and f_[1] == ("param", vc.pos_params[0])
        return False

    for d in defines:
        if len(d.args) == 2:
            zn, zv = _zip_side(strip_sites(d.args[0])), _zip_side(strip_sites(d.args[1]))
            if zn is not None and zv is not None and zn[0] == zv[0] and (zn[1], zv[1]) == (0, 1):
                # name and value are the two halves of one element of zip(<names of the parameters>, <visited arguments>)
                z_ = zn[0]
                names_t, vals_t = z_[2]
                params_t = ("attr", ("attr", ("attr", nodep, "func"), "args"), "args")
                ok_names = names_t[0] == "comp" and len(names_t[3]) == 1 and not names_t[3][0][1] and names_t[3][0][0] == params_t and names_t[2] == ("attr", ("elem", params_t), "arg")
                if ok_names and _visited_args(vals_t):
                    run.ok("C02.R3a", vc, "parameters and visited arguments are paired by one zip(names, visited arguments)", show(z_)[:120])
                    continue
            vt = _through_pairs(d.args[1])
            nt = _through_pairs(d.args[0])
            params_t = ("attr", ("attr", ("attr", nodep, "func"), "args"), "args")
            args_t = ("attr", nodep, "args")
            ok_n = nt[0] == "attr" and nt[2] == "arg" and contains(nt, lambda s: s == params_t)
            run.check(ok_n, "C02.R3a", vc, d.at, "the name bound is a parameter of the called lambda", f"define_name binds {show(nt)[:100]}")
            # positional pairing: name and value are the two components of one zip(params, args) element; the argument
            # is visited either before zipping (list / generator of visited arguments) or as it is bound
            zips = [z for z in subterms(vt) if isinstance(z, tuple) and z and z[0] == "app" and z[1] == ("global", "builtins.zip") and len(z[2]) == 2]
            pair_ok = visited = False
            for z in zips:
                elem = ("elem", z)
                if nt != ("attr", ("index", elem, 0), "arg") or z[2][0] != params_t:
                    continue
                second = z[2][1]
                if vt == ("index", elem, 1):
                    pair_ok = True
                    visited = second[0] == "comp" and second[2] == arg_elem if second[0] == "comp" else False
                    if second[0] == "comp":
                        visited = second[2] == arg_elem and len(second[3]) == 1 and second[3][0][0] == args_t and not second[3][0][1]
                elif vt == ("visit", ("index", elem, 1)):
                    pair_ok = True
                    visited = second == args_t
            if not zips:
                visited = contains(vt, lambda s: s == arg_elem)
            run.check(visited, "C02.R3a", vc, d.at, "the value bound to a parameter is a visited argument", f"parameter bound to {show(vt)[:140]}: the call's arguments are not visited before substitution (outer substitutions are not applied to them)", "self.visit(a) for a in call_node.args", show(vt))
            run.check(pair_ok, "C02.R3a", vc, d.at, "parameters and arguments are paired positionally (zip(params, args))", f"parameters and arguments are not paired as zip(lambda.args.args, visited args): name {show(nt)[:60]} <- {show(vt)[:80]}")
    # body visited inside the frame and returned
    for s, n in fa.returns():
        t = strip_sites(fa.term_of(s.value, n)) if s.value is not None else ("const", None)
        if t == ("visit", ("attr", ("attr", nodep, "func"), "body")):
            where = s
            if isinstance(s.value, ast.Name):
                # result = self.visit(body) inside the frame, `return result` once the frame is gone: the visit counts
                defs_r = [x for x in own_nodes(vc) if isinstance(x, ast.Assign) and len(x.targets) == 1 and isinstance(x.targets[0], ast.Name) and x.targets[0].id == s.value.id]
                if len(defs_r) == 1:
                    where = defs_r[0]
            run.check(id(where) in inside, "C02.R3b", vc, s, "the body is visited inside the frame", "the lambda body is visited outside the frame that binds its parameters")
            # R3c guard
            _check_reduction_guard(run, ctx, m, vc, fa, s, nodep)


def _check_fresh_frame_keys(run: Run, ctx0, m, cls, vc: FuncInfo, w: ast.With) -> bool:
    """R3f. The fusion rules visit what they build, and what they build contains pieces that were visited
    before (the visited source, the visited First() operand): inside the frame of a called lambda those pieces
    - argument text already substituted - are looked up again. (lambda y: Where(Where(y, f), g))(y.jets) inside
    `lambda y` turned into Where(y.jets.jets, ..). The second look-up is harmless exactly when no frame key can
    occur in substituted text: keys are names made by make_args_unique / arg_name (call frames), or bound to
    themselves (lambda frames, R3d)."""
    from ..lib import call_events

    # a design that hides the pending frames while re-visiting (swapping the stack) is not read here
    for f_ in cls.methods.values():
        if f_.name == "__init__":
            continue
        for n in own_nodes(f_):
            if isinstance(n, (ast.Assign, ast.AugAssign)):
                for t_ in n.targets if isinstance(n, ast.Assign) else [n.target]:
                    if isinstance(t_, ast.Attribute) and isinstance(t_.value, ast.Name) and t_.value.id == "self" and "stack" in t_.attr:
                        raise AnalysisError(f"{f_.name} replaces the argument stack ({ast.unparse(t_)}): re-visits may run against other frames than the pending ones; not analysed")
    inside = {id(x) for x in ast.walk(w)}
    n_keys = 0
    all_fresh = True
    for ev in call_events(ctx0, vc, lambda nm: nm == "define_name"):
        at = stmt_of(ev.call) if ev.owner is vc else ev.site.stmt
        if at is None or id(at) not in inside or len(ev.args) != 2:
            continue
        n_keys += 1
        kt = ev.args[0]
        def _always_fresh(t_) -> bool:
            # on every alternative the name is taken out of what make_args_unique / arg_name returned (a renaming done
            # only under some condition - "when an argument mentions the name" - leaves the other alternative raw)
            if not isinstance(t_, tuple) or not t_:
                return False
            if t_[0] == "app" and t_[1][0] == "global" and t_[1][1].rsplit(".", 1)[-1].rsplit(":", 1)[-1] in ("make_args_unique", "arg_name"):
                return True
            if t_[0] == "phi":
                return bool(t_[1]) and all(_always_fresh(a_) for a_ in t_[1])
            if t_[0] == "ifexp":
                return _always_fresh(t_[2]) and _always_fresh(t_[3])
            if t_[0] in ("attr", "index", "elem", "subscript", "slice"):
                return _always_fresh(t_[1])
            if t_[0] == "app" and t_[1] == ("global", "builtins.zip") and t_[2]:
                return _always_fresh(t_[2][0])
            return False

        fresh = _always_fresh(kt) or (contains(kt, lambda s: s[0] == "app" and s[1][0] == "global" and s[1][1].rsplit(".", 1)[-1].rsplit(":", 1)[-1] in ("make_args_unique", "arg_name")) and not contains(kt, lambda s: s[0] in ("phi", "ifexp")))
        all_fresh = all_fresh and fresh
        run.check(
            fresh,
            "C02.R3f",
            vc,
            at,
            "call-frame key is a fresh name",
            f"the frame of a called lambda binds the lambda's own parameter name ({show(kt)[:90]}): argument text that mentions the same name - (lambda y: Where(Where(y, f), g))(y.jets) inside `lambda y` - is substituted once when the body is visited and again when the fused call is re-visited inside the frame, giving y.jets.jets",
            "func = make_args_unique(call_node.func); define_name(<its parameter>, <visited argument>)",
            show(kt),
            key="call-frame key is the lambda's own parameter name",
        )
    run.floor("C02.R3f", n_keys, 1, "names bound in the called lambda's frame")
    return all_fresh and n_keys > 0


def _path_names(t):
    out = []
    while t[0] in ("attr", "index", "elem", "subscript", "slice"):
        if t[0] == "attr":
            out.append(t[2])
        t = t[1]
    return out


NEED = ("keywords", "vararg", "kwonlyargs", "kwarg", "defaults")


def _check_reduction_guard(run: Run, ctx, m, vc: FuncInfo, fa, ret_stmt, nodep) -> None:
    fx = Facts(fa, ret_stmt)
    atoms = list(fx.atoms)
    # expand guard-function facts: G(call_node) True  ->  facts at G's truthy returns
    expanded = []
    for a, pol in atoms:
        if pol and isinstance(a, ast.Call) and isinstance(a.func, ast.Name) and len(a.args) == 1:
            tgt = m.lookup_target(m.resolve_dotted(vc.module, vc, a.func.id))
            if isinstance(tgt, FuncInfo) and strip_sites(fa.term_of(a.args[0])) == nodep:
                ga = ctx.analysis(tgt)
                common = None
                for s, n in ga.returns():
                    if isinstance(s.value, ast.Constant) and not s.value.value:
                        continue
                    fs = [(x, p) for x, p in Facts(ga, s).atoms]
                    from ..cfg import facts_true

                    if not (isinstance(s.value, ast.Constant) and s.value.value is True):
                        fs += facts_true(s.value)
                    keyset = {(ast.dump(x), p) for x, p in fs}
                    common = keyset if common is None else (common & keyset)
                    expanded.append((tgt, fs))
                run.touch(tgt)
    ev = {k: False for k in NEED + ("lambda", "arity", "starred")}
    pools = [atoms] + [fs for _g, fs in expanded]
    # every truthy return of the guard must carry the evidence: require it in all pools that come from the guard
    guard_pools = [fs for _g, fs in expanded] or [atoms]
    for key in ev:
        ev[key] = all(_has_evidence(p + atoms, key) for p in guard_pools)
    msgs = {
        "lambda": "the callee is an ast.Lambda",
        "keywords": "the call has no keyword arguments",
        "starred": "the call has no *args",
        "vararg": "the lambda has no *args parameter",
        "kwonlyargs": "the lambda has no keyword-only parameters",
        "kwarg": "the lambda has no **kwargs parameter",
        "defaults": "the lambda has no defaults",
        "arity": "the number of positional arguments equals the number of parameters",
    }
    for key, ok in ev.items():
        run.check(ok, "C02.R3c", vc, ret_stmt, f"beta-reduction only if {msgs[key]}", f"a called lambda is reduced without checking that {msgs[key]}: parameters are left unbound or bound to the wrong argument", "leave the call intact otherwise")


def _has_evidence(atoms, key: str) -> bool:
    for a, pol in atoms:
        names = {x.attr for x in ast.walk(a) if isinstance(x, ast.Attribute)}
        if key == "lambda":
            from ..lib import match_isinstance, norm_atom

            a, pol = norm_atom(a, pol)
            g = match_isinstance(a)
            if g is not None and pol and any(isinstance(c, ast.Attribute) and c.attr == "Lambda" for c in g[1]):
                return True
            continue
        if key == "arity":
            if isinstance(a, ast.Compare) and len(a.ops) == 1 and ((isinstance(a.ops[0], ast.Eq) and pol) or (isinstance(a.ops[0], ast.NotEq) and not pol)):
                sides = [a.left, a.comparators[0]]
                if all(isinstance(s, ast.Call) and isinstance(s.func, ast.Name) and s.func.id == "len" for s in sides):
                    return True
            continue
        if key == "starred":
            if not pol and any(isinstance(x, ast.Attribute) and x.attr == "Starred" for x in ast.walk(a)):
                return True
            continue
        if key in names:
            # falsy evidence: `x.key` False | `len(x.key) > 0` False | `len(x.key) == 0` True | `x.key is None` True | `x.key is not None` False
            if isinstance(a, ast.Attribute) and a.attr == key and not pol:
                return True
            le = len_eq(a)
            if le is not None and isinstance(le[0], ast.Attribute) and le[0].attr == key:
                op, k = le[1], le[2]
                if (not pol and ((op == "Gt" and k == 0) or (op == "GtE" and k == 1) or (op == "NotEq" and k == 0))) or (pol and ((op == "Eq" and k == 0) or (op == "LtE" and k == 0) or (op == "Lt" and k == 1))):
                    return True
            if isinstance(a, ast.Compare) and len(a.ops) == 1 and isinstance(a.left, ast.Attribute) and a.left.attr == key and isinstance(a.comparators[0], ast.Constant) and a.comparators[0].value is None:
                if (isinstance(a.ops[0], ast.Is) and pol) or (isinstance(a.ops[0], ast.IsNot) and not pol):
                    return True
    return False


def _check_call_stack(run: Run, ctx, m) -> None:
    st = m.find_class("argument_stack", in_module="func_adl.ast.call_stack")
    gen = [f for f in m.module("func_adl.ast.call_stack").functions.values() if f.name == "stack_frame"]
    if gen:
        _check_stack_frame_generator(run, ctx, gen[0])
        _check_stack_methods(run, ctx, m, st)
        return
    sf = m.find_class("stack_frame", in_module="func_adl.ast.call_stack")
    for need in ("push_stack_frame", "pop_stack_frame", "define_name", "lookup_name"):
        if need not in st.methods:
            raise AnalysisError(f"anchor vanished: argument_stack.{need}")
    en, ex = sf.methods.get("__enter__"), sf.methods.get("__exit__")
    if en is None or ex is None:
        raise AnalysisError("stack_frame is no longer a context manager")
    en_calls = [c.func.attr for c in calls_in(en) if isinstance(c.func, ast.Attribute)]
    ex_calls = [c.func.attr for c in calls_in(ex) if isinstance(c.func, ast.Attribute)]
    run.check(en_calls == ["push_stack_frame"], "C02.R3b", en, en.node, "__enter__ pushes exactly one frame", f"stack_frame.__enter__ calls {en_calls}")
    run.check(ex_calls == ["pop_stack_frame"], "C02.R3b", ex, ex.node, "__exit__ pops exactly one frame", f"stack_frame.__exit__ calls {ex_calls}: frames are not paired")
    for meth, c0 in ((en, "push"), (ex, "pop")):
        fa = ctx.analysis(meth)
        for c in calls_in(meth):
            if isinstance(c.func, ast.Attribute) and c.func.attr.endswith("_stack_frame"):
                t = strip_sites(fa.term_of(c.func.value))
                held = _init_attr(ctx, m, sf, lambda t_: t_ == ("param", m.find_method(sf, "__init__").pos_params[1]), "the stack held by stack_frame")
                run.check(t == ("attr", ("param", meth.pos_params[0]), held), "C02.R3b", meth, stmt_of(c), f"{c0} acts on the stack handed to stack_frame", f"{c0} acts on {show(t)}")
    ex_rt = strip_sites(ctx.analysis(ex).return_term())
    run.check(ex_rt == ("const", None) or ex_rt == ("const", False), "C02.R3b", ex, ex.node, "__exit__ does not swallow exceptions", f"__exit__ returns {show(ex_rt)}: exceptions inside a frame are suppressed")
    _check_stack_methods(run, ctx, m, st)


def _check_stack_frame_generator(run: Run, ctx, fi: FuncInfo) -> None:
    """@contextmanager form of stack_frame: push; try: yield; finally: pop."""
    is_cm = any(d.split(".")[-1] == "contextmanager" for d in fi.decorators)
    run.check(is_cm, "C02.R3b", fi, fi.node, "stack_frame is a context manager", "stack_frame is neither a class with __enter__/__exit__ nor a @contextmanager generator")
    pushes = [c for c in calls_in(fi) if isinstance(c.func, ast.Attribute) and c.func.attr == "push_stack_frame"]
    pops = [c for c in calls_in(fi) if isinstance(c.func, ast.Attribute) and c.func.attr == "pop_stack_frame"]
    ys = [n for n in own_nodes(fi) if isinstance(n, ast.Yield)]
    ok = len(pushes) == 1 and len(pops) == 1 and len(ys) == 1
    in_finally = False
    if ok:
        from ..model import ancestors

        for a in ancestors(pops[0]):
            if isinstance(a, ast.Try) and any(pops[0] is x or any(pops[0] is y for y in ast.walk(x)) for x in a.finalbody) and any(ys[0] is y for b in a.body for y in ast.walk(b)):
                in_finally = True
    run.check(ok and in_finally, "C02.R3b", fi, fi.node, "frame pushed before the yield and popped in a finally around it", "the generator form of stack_frame does not pop the frame in a `finally`: when an exception (e.g. the permitted FuncADLIndexError) leaves the with-block the frame stays on the stack and later queries on the same simplifier see stale bindings", "push; try: yield; finally: pop")


def _init_attr(ctx, m, cls, pred, what: str) -> str:
    """name of the one attribute that cls.__init__ (through the MRO) initialises with a value satisfying pred"""
    init = m.find_method(cls, "__init__")
    if init is None:
        raise AnalysisError(f"{cls.name} has no __init__: cannot identify {what}")
    fa = ctx.analysis(init)
    names = []
    for n in own_nodes(init):
        tg = None
        if isinstance(n, ast.Assign) and len(n.targets) == 1:
            tg = n.targets[0]
        elif isinstance(n, ast.AnnAssign) and n.value is not None:
            tg = n.target
        if isinstance(tg, ast.Attribute) and isinstance(tg.value, ast.Name) and tg.value.id == init.pos_params[0] and pred(strip_sites(fa.term_of(n.value))):
            names.append(tg.attr)
    if len(set(names)) != 1:
        raise AnalysisError(f"cannot identify {what}: candidates {sorted(set(names))}")
    return names[0]


def _frames_attr(ctx, m) -> str:
    st = m.find_class("argument_stack", in_module="func_adl.ast.call_stack")
    return _init_attr(ctx, m, st, lambda t: t == ("list", (("dict", ()),)), "the frame list of argument_stack")


def _check_stack_methods(run: Run, ctx, m, st) -> None:
    push, pop, define = st.methods["push_stack_frame"], st.methods["pop_stack_frame"], st.methods["define_name"]
    selfp = ("param", push.pos_params[0])
    FR = _frames_attr(ctx, m)
    frames = ("attr", selfp, FR)
    fa = ctx.analysis(push)
    apps = [c for c in calls_in(push) if isinstance(c.func, ast.Attribute) and c.func.attr == "append"]
    ok = len(apps) == 1 and strip_sites(fa.term_of(apps[0].func.value)) == frames and strip_sites(fa.term_of(apps[0].args[0])) == ("dict", ())
    run.check(ok, "C02.R3b", push, push.node, "push appends an empty frame", "push_stack_frame does not append a new empty frame")
    dels = [n for n in own_nodes(pop) if isinstance(n, ast.Delete)]
    pops = [c for c in calls_in(pop) if isinstance(c.func, ast.Attribute) and c.func.attr == "pop"]
    ok = False
    fp = ctx.analysis(pop)
    if len(dels) == 1 and not pops:
        tg = dels[0].targets[0]
        ok = isinstance(tg, ast.Subscript) and strip_sites(fp.term_of(tg.value)) == ("attr", ("param", pop.pos_params[0]), FR) and isinstance(tg.slice, ast.UnaryOp) and isinstance(tg.slice.operand, ast.Constant) and tg.slice.operand.value == 1
    elif len(pops) == 1 and not dels:
        ok = strip_sites(fp.term_of(pops[0].func.value)) == ("attr", ("param", pop.pos_params[0]), FR) and (not pops[0].args or (isinstance(pops[0].args[0], ast.UnaryOp) and getattr(pops[0].args[0].operand, "value", None) == 1))
    run.check(ok, "C02.R3b", pop, pop.node, "pop removes the innermost frame", "pop_stack_frame does not remove exactly the innermost frame")
    fd = ctx.analysis(define)
    stores = [n for n in own_nodes(define) if isinstance(n, ast.Assign) and isinstance(n.targets[0], ast.Subscript)]
    ok = False
    if len(stores) == 1:
        tg = stores[0].targets[0]
        tv_ = strip_sites(fd.term_of(tg.value))
        if tv_[0] == "attr" and tv_[1] == ("param", define.pos_params[0]) and define.cls is not None:
            # self._current_frame with a property that is `return self.<frames>[-1]`
            pm_ = m.find_method(define.cls, tv_[2])
            if pm_ is not None and pm_.is_property and len(pm_.pos_params) == 1:
                from ..terms import subst as _subst

                tv_ = _subst(strip_sites(ctx.analysis(pm_).return_term()), {("param", pm_.pos_params[0]): ("param", define.pos_params[0])})
        ok = tv_ == ("index", ("attr", ("param", define.pos_params[0]), FR), -1) and strip_sites(fd.term_of(tg.slice)) == ("param", define.pos_params[1]) and strip_sites(fd.term_of(stores[0].value)) == ("param", define.pos_params[2])
    if ok:
        ok = fd.cfg.postdominates(fd.cfg.node_of(stores[0]), fd.cfg.entry)
    run.check(ok, "C02.R3b", define, define.node, "define_name writes frames[-1][name] = val, unconditionally", "define_name does not (always) define the name in the innermost frame: a definition that is skipped for some values (e.g. a name bound to itself) no longer shadows an outer binding of the same name")


def _loop_or_self(n: ast.AST) -> ast.AST:
    """the for-loop a statement sits in (a frame filled by a loop over the parameters), else the node itself"""
    from ..model import ancestors as _anc

    for a_ in _anc(n):
        if isinstance(a_, ast.For):
            return a_
        if isinstance(a_, (ast.FunctionDef, ast.AsyncFunctionDef)):
            break
    return n


def _subterms(t):
    if isinstance(t, tuple):
        yield t
        for x in t:
            yield from _subterms(x)


def _check_shadow_lambda(run: Run, ctx, m, vl: FuncInfo, prop: str) -> None:
    """visit_Lambda of a substituter: shadow frame with all five parameter kinds around the body visit."""
    rule_d = f"{prop}.R3d" if prop == "C02" else f"{prop}.R2"
    rule_e = f"{prop}.R3e" if prop == "C02" else f"{prop}.R2e"
    fa = ctx.analysis(vl)
    nodep = ("param", vl.pos_params[1])
    from ..lib import attrs_in_call_closure

    kinds = attrs_in_call_closure(m, vl, LAMBDA_ARG_KINDS)
    missing = [k for k in LAMBDA_ARG_KINDS if k not in kinds]
    run.check(not missing, rule_d, vl, vl.node, "all five kinds of lambda parameters are shadowed", f"visit_Lambda does not shadow the lambda's {'/'.join(missing)} parameters: a pending substitution replaces names bound by them")
    from ..lib import call_events, event_after, event_before

    evs = call_events(ctx, vl, lambda nm: nm in ("generic_visit", "define_name", "append", "pop", "push_stack_frame", "pop_stack_frame"))
    gvs = [e for e in evs if e.name == "generic_visit"]
    run.check(len(gvs) == 1, rule_d, vl, vl.node, "the lambda is visited once under the shadow frame", f"{len(gvs)} generic_visit calls in visit_Lambda")
    if len(gvs) != 1:
        return
    gv = gvs[0]
    withs = [n for n in own_nodes(vl) if isinstance(n, ast.With)]
    selfp_ = ("param", vl.pos_params[0])
    defines = [e for e in evs if e.name == "define_name" or (e.name == "append" and e.recv is not None and root_of(e.recv) == selfp_)]
    cfg = fa.cfg
    if withs:
        w = withs[0]
        inside = {id(x) for x in ast.walk(w)}

        def _in(e):
            return (id(e.call) in inside) if e.owner is vl else (e.site.stmt is not None and id(e.site.stmt) in inside)

        ok = _in(gv) and bool(defines) and all(_in(d) for d in defines) and all(event_before(ctx, vl, d, gv) or (d.site is not gv.site and cfg.dominates(cfg.node_of(_outer_stmt(d.call, w)), gv.site)) if d.owner is vl else event_before(ctx, vl, d, gv) for d in defines)
        run.check(ok, rule_d, vl, w, "parameters are defined in a frame that encloses the visit of the body", "the shadow frame does not enclose the visit of the lambda body (or is filled after it)")
    elif any(e.name == "push_stack_frame" for e in evs):
        # the frame opened and closed by hand: push_stack_frame(); try: define..; visit; finally: pop_stack_frame()
        opens = [e for e in evs if e.name == "push_stack_frame"]
        closes = [e for e in evs if e.name == "pop_stack_frame"]
        ok = len(opens) == 1 and len(closes) == 1 and opens[0].recv is not None and opens[0].recv == closes[0].recv and bool(defines)
        ok = ok and event_before(ctx, vl, opens[0], gv) and event_after(ctx, vl, closes[0], gv) and all(d.recv == opens[0].recv and event_before(ctx, vl, opens[0], d) and (event_before(ctx, vl, d, gv) or fa.cfg.dominates(cfg.node_of(_loop_or_self(d.call)), gv.site)) for d in defines if d.owner is vl)
        # closed on exceptional exits too: the close sits in a `finally` whose try contains the visit
        from ..model import ancestors as _anc

        in_fin = any(isinstance(a_, ast.Try) and any(closes[0].call is y for x in a_.finalbody for y in ast.walk(x)) and any(gv.call is y for b_ in a_.body for y in ast.walk(b_)) for a_ in _anc(closes[0].call)) if closes and closes[0].owner is vl and gv.owner is vl else False
        run.check(ok and in_fin, rule_d, vl, vl.node, "shadow frame pushed before and popped (in a finally) after the body is visited", "the shadow frame is not pushed before / popped after the visit of the lambda body on every path (including exceptional exits)")
        ok = None
    else:
        pops = [e for e in evs if e.name == "pop" and e.recv is not None and root_of(e.recv) == selfp_]
        from ..lib import pop_is_lifo as _lifo_d

        for q_ in pops:
            run.check(_lifo_d(q_), rule_d, vl, vl.node, "the shadow frame removed is the newest one", "the frame removed after the lambda body is not the newest one")
        ok = len(defines) == 1 and len(pops) == 1 and defines[0].recv == pops[0].recv and event_before(ctx, vl, defines[0], gv) and event_before(ctx, vl, gv, pops[0]) and event_after(ctx, vl, pops[0], gv)
    if not withs and ok is not None:
        run.check(ok, rule_d, vl, vl.node, "shadow frame pushed before and popped after the body is visited, on every path", "the shadow frame is not pushed before / popped after the visit of the lambda body on every path")
    # what the frame is keyed by: the parameters' *names* (ast.arg.arg) - a frame keyed by the ast.arg nodes themselves
    # (dict.fromkeys(all_args)) never matches a name that is looked up and shadows nothing
    def _names(t_, depth=2) -> bool:
        if contains(t_, lambda s_: s_[0] == "attr" and s_[2] == "arg"):
            return True
        if depth > 0:
            for s_ in _subterms(t_):
                if len(s_) >= 3 and s_[0] == "app" and isinstance(s_[1], tuple) and len(s_[1]) == 2 and s_[1][0] == "global":
                    g_ = m.lookup_target(s_[1][1])
                    if isinstance(g_, FuncInfo):
                        try:
                            if _names(strip_sites(ctx.analysis(g_).return_term()), depth - 1):
                                return True
                        except AnalysisError:
                            pass
        return False

    def _filled_by_name(owner) -> bool:
        # frame built empty and filled key by key: hidden[a.arg] = None / names.append(a.arg) / names.add(a.arg)
        for x_ in own_nodes(owner):
            if isinstance(x_, ast.Subscript) and isinstance(x_.ctx, ast.Store) and any(isinstance(y_, ast.Attribute) and y_.attr == "arg" for y_ in ast.walk(x_.slice)):
                return True
            if isinstance(x_, ast.Call) and isinstance(x_.func, ast.Attribute) and x_.func.attr in ("append", "add", "setdefault") and x_.args and any(isinstance(y_, ast.Attribute) and y_.attr == "arg" for y_ in ast.walk(x_.args[0])):
                return True
        return False

    for d_ in defines:
        kt_ = d_.args[0] if d_.args else ("top", "?")
        run.check(_names(kt_) or (kt_ in (("dict", ()), ("list", ()), ("app", ("global", "builtins.set"), (), ()), ("app", ("global", "builtins.dict"), (), ())) and _filled_by_name(vl)), rule_d, vl, stmt_of(d_.call) if d_.owner is vl else vl.node, "the shadow frame is keyed by parameter names", f"the shadow frame of visit_Lambda is keyed by {show(kt_)[:100]}, not by the parameters' names (a.arg): a name that is looked up never matches, the lambda's own parameters are not hidden and a pending substitution replaces them", "{a.arg: .. for a in all_args}", show(kt_))
    # R3e: capture avoidance - the binder must be renamed (fresh) while substitutions are pending
    renames = any(isinstance(c.func, ast.Name) and c.func.id in ("arg_name", "make_args_unique") for c in calls_in(vl))
    run.check(renames, rule_e, vl, vl.node, "binders are renamed (or arguments proved closed) before substituting underneath them", "visit_Lambda keeps the lambda's own parameter names while substitutions are pending: a free name of a substituted argument that equals a parameter of this nested lambda is captured by it", "alpha-rename the parameters with fresh names (as make_args_unique does) before visiting the body", key="binder kept while substitutions are pending")


def _outer_stmt(call: ast.Call, w: ast.With):
    from ..model import ancestors

    prev = call
    for a in ancestors(call):
        if a is w:
            return prev
        if isinstance(a, ast.stmt):
            prev = a
    return stmt_of(call)
