"""C20 - the query hash identifies structure and nothing else (func_adl/ast/ast_hash.py)."""
from __future__ import annotations

import ast

from ..lib import calls_in, own_nodes, stmt_of
from ..model import AnalysisError, FuncInfo, dotted
from ..report import Run
from ..terms import TermCtx, show, strip_sites

EXPLANATION = (
    "calc_ast_hash derives its digest only from ast.dump(a) with field names and without attributes (positions, non-field "
    "annotations such as executor references or _q_metadata are therefore invisible: C20.R1/R2); every operation and every name it "
    "reads is in a whitelist of deterministic, process-independent operations (R3); the whole dump reaches the digest through an "
    "injective, total text->bytes step (R4/R5)."
    " (R6) list-typed fields of constructed nodes hold real lists; (R7) a captured constant only changes the hash if it reached the AST: the capture snapshot rules of C04 (closure and all module globals, none filtered out) are re-evaluated."
    " (R10) callable, text and ast forms of one lambda give one AST: capture binders and membership (C04.R1/R3) and conversion-free constants (C13.R2) are re-evaluated; a digest source other than ast.dump is a finding."
)
NOT_DECIDED = "injectivity of ast.dump on structure and collision resistance of the digest (trusted stdlib / cryptographic assumption)."

UNICODE_CODECS = {"utf-8", "utf8", "utf_8", "utf-16", "utf16", "utf-32", "utf32", "utf-16-le", "utf-16-be", "utf-32-le", "utf-32-be"}
OK_ERRORS = {"strict", "surrogatepass"}
PURE_CALLS = {"ast.dump", "bytearray", "bytes", "map", "ord", "str", "len"}
BAD_PREFIXES = ("time.", "random.", "os.", "uuid.", "datetime.", "secrets.", "sys.", "socket.", "threading.")
BAD_NAMES = {"hash", "id", "repr", "object", "vars", "globals", "locals", "getattr", "hasattr", "set", "frozenset", "open", "input", "eval", "exec"}
LOSSY_STR_METHODS = {"lower", "upper", "casefold", "strip", "lstrip", "rstrip", "replace", "split", "title", "swapcase", "capitalize", "translate", "expandtabs", "format", "join", "partition"}


def check(run: Run) -> None:
    m = run.model
    fi = m.find_func("calc_ast_hash", in_module="func_adl.ast.ast_hash")
    run.rule("C20.R1", "digest input derives only from ast.dump(a); every return is <hashlib algo>(bytes-of-dump).hexdigest()")
    run.rule("C20.R2", "ast.dump called without include_attributes=True and without annotate_fields=False")
    run.rule("C20.R3", "every call and every non-local name read is whitelisted as deterministic and process independent")
    run.rule("C20.R4", "whole dump reaches the digest: no slicing / lossy normalisation / lossy codec")
    run.rule("C20.R5", "text->bytes step is total on str (Unicode-complete encode), not a per-character ord into a bytearray")
    ctx = TermCtx(m, max_depth=3)
    _COUNTS.clear()
    _check_function(run, ctx, fi, seen=set())
    _check_list_fields(run, m)
    _check_ctx_fields(run, m)
    # a constant's value only changes the hash if the value reached the AST: the capture snapshot (shared with C04.R3/R6)
    from ..report import Relabel
    from .c04 import check_snapshot

    run.rule("C20.R7", "captured values come from the callable's own closure and module globals, none filtered out: a constant that stays a bare name hashes the same for every value")
    # .. and only immutable scalars may sit in a Constant: ast.dump prints repr() of anything else (set order, addresses)
    run.rule("C20.R8", "check_ast gates the emitted lambda of every operator before construction (C13.R3 re-evaluated)")
    from ..report import run_stage

    run.rule("C20.R9", "python values handed to the result terminals reach the AST with Python's own literal escaping (C13.R1 re-evaluated): two different strings must not become the same Constant")
    run_stage(run, "c13", only={"C13.R3", "C13.R1", "C13.R2"})
    run.rule("C20.R10", "the way a lambda is supplied does not change the AST: a python callable is captured by value with every binder respected (C04.R1, C04.R3 re-evaluated) and values become constants without conversion (C13.R2: True stays True, not 1) - so callable, text and AST forms of one lambda hash alike")
    run_stage(run, "c04", only={"C04.R1", "C04.R3"})
    check_snapshot(Relabel(run, "C20.R7"), TermCtx(m, max_depth=2, opaque={"as_literal", "_parse_source_for_lambda"}), m, m.find_class("_rewrite_captured_vars", in_module="func_adl.util_ast"))


CTX_CLASSES = ("Name", "Attribute", "Subscript", "List", "Tuple", "Starred")
BUILD_PATH = ("func_adl.util_ast", "func_adl.object_stream", "func_adl.event_dataset", "func_adl.type_based_replacement", "func_adl.ast.syntatic_sugar")


def _check_ctx_fields(run: Run, m) -> None:
    """ast.dump leaves out a field that was never set: Name(id='x') and Name(id='x', ctx=Load()) print - and hash -
    differently, although they unparse alike. Nodes the library builds while a query is being *built* (capture, helper
    inlining, sugar, operators) stand where the parser would have put complete nodes when the same lambda is given as
    text: they must carry their ctx, or the hash depends on the way the lambda was supplied."""
    run.rule("C20.R11", "every Name / Attribute / Subscript / List / Tuple / Starred the library constructs on the query-building path is given its ctx (ast.dump omits unset fields: the hash would depend on how the lambda was supplied)")
    n = 0
    for fi in m.funcs.values():
        if fi.module.name not in BUILD_PATH:
            continue
        for c in calls_in(fi):
            f = c.func
            if not (isinstance(f, ast.Attribute) and isinstance(f.value, ast.Name) and f.value.id == "ast" and f.attr in CTX_CLASSES):
                continue
            n += 1
            fields = list(getattr(ast, f.attr)._fields)
            given = set(fields[: len(c.args)]) | {k.arg for k in c.keywords if k.arg}
            if any(isinstance(a, ast.Starred) for a in c.args) or any(k.arg is None for k in c.keywords):
                continue
            stand_in = f.attr == "Name" and len(c.args) == 1 and isinstance(c.args[0], ast.Constant) and c.args[0].value == "basic"
            if stand_in:
                run.ok("C20.R11", fi, "root of the stand-in stream used while following nested lambdas (never part of a query)")
                continue
            run.check("ctx" in given, "C20.R11", fi, stmt_of(c), f"ast.{f.attr}(..) is given its ctx", f"{fi.name} builds ast.{f.attr}({', '.join(sorted(given))}) without ctx: ast.dump leaves the unset field out, so the node - and every query that contains it - hashes differently from the same query written as text (where the parser sets ctx=Load()), although both unparse alike", f"ast.{f.attr}(.., ctx=ast.Load())", key=f"ctx missing on ast.{f.attr} built by {fi.name}")
    run.floor("C20.R11", n, 5, "constructions of ctx-carrying nodes on the building path")


LIST_FIELDS = {"args", "keywords", "elts", "keys", "values", "body", "orelse", "generators", "ifs", "comparators", "ops", "posonlyargs", "kwonlyargs", "kw_defaults", "defaults", "targets", "names", "decorator_list", "handlers", "finalbody", "items"}


def _check_list_fields(run: Run, m) -> None:
    """ast.dump only descends into real lists: any other iterable in a list-typed field is rendered with repr()
    (memory addresses), which makes the hash depend on the process."""
    run.rule("C20.R6", "every AST the library constructs has real lists in list-typed fields (otherwise ast.dump prints repr() of the container, incl. addresses)")
    ctx = TermCtx(m, max_depth=1)
    n = 0
    for fi in m.funcs.values():
        fa = None
        for c in calls_in(fi):
            f = c.func
            if not (isinstance(f, ast.Attribute) and isinstance(f.value, ast.Name) and f.value.id == "ast" and isinstance(getattr(ast, f.attr, None), type)):
                continue
            fields = list(getattr(getattr(ast, f.attr), "_fields", ()))
            bound = {fields[i]: a for i, a in enumerate(c.args) if i < len(fields)}
            bound.update({k.arg: k.value for k in c.keywords if k.arg})
            for fld, arg in bound.items():
                if fld not in LIST_FIELDS or (f.attr == "Dict" and False):
                    continue
                if f.attr in ("Attribute", "Constant", "Name"):
                    continue
                n += 1
                fa = fa or ctx.analysis(fi)
                if not fa.cfg.has_node(arg):
                    continue
                t = strip_sites(fa.term_of(arg))
                bad = None
                for a in (t[1] if t[0] == "phi" else [t]):
                    if a[0] == "app" and a[1][0] == "attr" and a[1][2] in ("values", "keys", "items"):
                        bad = f"a dict view (.{a[1][2]}())"
                    elif a[0] == "comp" and a[1] in ("GeneratorExp", "SetComp", "DictComp"):
                        bad = f"a {a[1]}"
                    elif a[0] == "app" and a[1][0] == "global" and a[1][1] in ("builtins.map", "builtins.filter", "builtins.zip", "builtins.reversed", "builtins.iter", "builtins.set", "builtins.frozenset", "builtins.dict"):
                        bad = f"{a[1][1].split('.')[-1]}(..)"
                    elif a[0] in ("tuple", "set", "dict"):
                        bad = f"a {a[0]} literal"
                run.check(bad is None, "C20.R6", fi, stmt_of(c), f"ast.{f.attr}.{fld} receives a list", f"ast.{f.attr}({fld}=..) receives {bad}, not a list: ast.unparse still works, but ast.dump prints repr() of the container (object addresses), so calc_ast_hash of a query containing this node differs between builds and processes", "a list")
    run.floor("C20.R6", n, 12, "list-typed constructor fields in the package")


_COUNTS = {}


def _check_function(run: Run, ctx: TermCtx, fi: FuncInfo, seen) -> None:
    if fi.qual in seen:
        return
    seen.add(fi.qual)
    m = run.model
    fa = ctx.analysis(fi)
    run.touch(fi)
    param = fi.pos_params[0] if fi.pos_params else None

    # ---- R3: names read
    local = set(fa.locals)
    for n in own_nodes(fi):
        if isinstance(n, ast.comprehension):
            local |= {x.id for x in ast.walk(n.target) if isinstance(x, ast.Name)}
    n_names = 0
    for n in own_nodes(fi):
        if isinstance(n, ast.Name) and isinstance(n.ctx, ast.Load) and n.id not in local:
            t = fa.term_of(n) if fa.cfg.has_node(n) else ("global", n.id)
            n_names += 1
            tgt = t[1] if t[0] == "global" else "?"
            ok = tgt in ("ast", "hashlib") or tgt.startswith("builtins.") or tgt.startswith("ast.") or tgt.startswith("hashlib.") or m.lookup_target(tgt) is not None
            if tgt.startswith("builtins.") and tgt.split(".")[1] in BAD_NAMES:
                ok = False
            run.check(ok, "C20.R3", fi, stmt_of(n), f"non-local name '{n.id}' is a whitelisted module/builtin/package function", f"hash computation reads '{n.id}' ({tgt}): module-level state or a process/identity dependent operation", "only ast, hashlib, pure builtins")
        if isinstance(n, (ast.Global, ast.Nonlocal)):
            run.fail("C20.R3", fi, n, "hash computation declares global/nonlocal state")

    # ---- calls
    dump_calls = []
    digest_calls = []
    for c in calls_in(fi):
        if not fa.cfg.has_node(c):
            continue
        t = strip_sites(fa.term_of(c.func))
        name = t[1] if t[0] == "global" else None
        if name is not None:
            short = name[len("builtins."):] if name.startswith("builtins.") else name
            if short == "ast.dump":
                dump_calls.append(c)
                kws = {k.arg: k.value for k in c.keywords}
                ia = kws.get("include_attributes")
                af = kws.get("annotate_fields")
                pos = c.args[1:]
                bad_ia = (ia is not None and not (isinstance(ia, ast.Constant) and ia.value is False)) or len(pos) >= 2
                bad_af = (af is not None and not (isinstance(af, ast.Constant) and af.value is True)) or len(pos) >= 1
                run.check(not bad_ia, "C20.R2", fi, stmt_of(c), "ast.dump without include_attributes", "ast.dump is asked to include attributes (line/column positions enter the hash)")
                run.check(not bad_af, "C20.R2", fi, stmt_of(c), "ast.dump with field names", "ast.dump is called with annotate_fields off: omitted defaults make distinct structures print alike")
                unknown_kw = set(kws) - {"include_attributes", "annotate_fields", "indent"}
                run.check(not unknown_kw, "C20.R2", fi, stmt_of(c), "ast.dump options limited to indent", f"unexpected ast.dump option(s) {sorted(unknown_kw)}")
                arg_t = strip_sites(fa.term_of(c.args[0])) if c.args else ("top", "no arg")
                run.check(param is not None and arg_t == ("param", param), "C20.R1", fi, stmt_of(c), "ast.dump is applied to the function's own argument", f"ast.dump is applied to {show(arg_t)}, not to the ast handed in")
                continue
            if short.startswith("hashlib."):
                digest_calls.append(c)
                run.ok("C20.R3", fi, f"digest constructor {short}")
                continue
            if short in PURE_CALLS:
                run.ok("C20.R3", fi, f"pure builtin {short}")
                continue
            bad = short in BAD_NAMES or short.startswith(BAD_PREFIXES)
            r = m.lookup_target(name)
            if isinstance(r, FuncInfo):
                run.ok("C20.R3", fi, f"package helper {short} analysed recursively")
                _check_function(run, ctx, r, seen)
                continue
            run.fail("C20.R3", fi, stmt_of(c), f"call of {short}: " + ("process/time/identity dependent" if bad else "not in the determinism whitelist"), "ast.dump, hashlib.<algo>, bytes/bytearray/map/ord, str.encode, .hexdigest")
            continue
        # method calls
        if isinstance(c.func, ast.Attribute):
            meth = c.func.attr
            if meth in ("hexdigest", "digest", "hex", "update", "extend", "append"):
                run.ok("C20.R3", fi, f"method .{meth}")
                continue
            if meth == "encode":
                enc = c.args[0] if c.args else next((k.value for k in c.keywords if k.arg == "encoding"), None)
                err = c.args[1] if len(c.args) > 1 else next((k.value for k in c.keywords if k.arg == "errors"), None)
                enc_v = enc.value.lower() if isinstance(enc, ast.Constant) and isinstance(enc.value, str) else ("utf-8" if enc is None else None)
                err_v = err.value if isinstance(err, ast.Constant) and isinstance(err.value, str) else ("strict" if err is None else None)
                run.check(err_v in OK_ERRORS, "C20.R4", fi, stmt_of(c), "encode error handler keeps every character", f"encode(errors={err_v!r}) maps distinct characters to the same bytes", "errors='strict'")
                run.check(enc_v in UNICODE_CODECS, "C20.R5", fi, stmt_of(c), "encode uses a Unicode-complete codec", f"codec {enc_v!r} cannot encode every str: hash is partial or lossy", "utf-8")
                continue
            if meth in LOSSY_STR_METHODS:
                run.fail("C20.R4", fi, stmt_of(c), f"lossy text normalisation .{meth}() applied before hashing")
                continue
            run.fail("C20.R3", fi, stmt_of(c), f"method call .{meth}() is not in the determinism whitelist")
            continue
        run.fail("C20.R3", fi, stmt_of(c), "call through a computed callee in hash computation")

    _COUNTS["dump"] = _COUNTS.get("dump", 0) + len(dump_calls)
    _COUNTS["digest"] = _COUNTS.get("digest", 0) + len(digest_calls)
    # ---- R4 (every function on the way): no slicing of text, no data-dependent control flow
    for n in own_nodes(fi):
        if isinstance(n, ast.Subscript) and isinstance(n.ctx, ast.Load):
            run.fail("C20.R4", fi, stmt_of(n), "subscript/slice in hash computation: part of the dump may not reach the digest")
        if isinstance(n, (ast.If, ast.IfExp, ast.While, ast.Try)):
            run.fail("C20.R1", fi, n if isinstance(n, ast.stmt) else stmt_of(n), "conditional control flow in hash computation: the digest is not a function of the dump alone")
    if fi.name != "calc_ast_hash":
        return
    if _COUNTS.get("dump", 0) == 0 and param is not None:
        # no ast.dump at all: if the argument is rendered by something else on its way to the digest, that is the finding
        other = [c for c in calls_in(fi) if fa.cfg.has_node(c) and any(fa.cfg.has_node(x) and strip_sites(fa.term_of(x)) == ("param", param) for x in list(c.args) + [k.value for k in c.keywords])]
        if other and _COUNTS.get("digest", 0) >= 1:
            c0 = other[0]
            run.fail("C20.R1", fi, stmt_of(c0), f"the digest input is {ast.unparse(c0)[:60]}, not ast.dump(a): only ast.dump prints exactly the structure (node classes, field names, constants with their types); source text or repr() identify different structures (Constant(-1) and UnaryOp(USub, Constant(1)) both unparse to -1) or depend on the process", "ast.dump(a)")
            return
    run.floor("C20.R1", _COUNTS.get("dump", 0), 1, "ast.dump call")
    run.floor("C20.R1", _COUNTS.get("digest", 0), 1, "hashlib digest construction")

    # ---- R1: returns
    rets = fa.returns()
    run.floor("C20.R1", len(rets), 1, "return")
    for s, n in rets:
        t = strip_sites(fa.term_of(s.value, n)) if s.value is not None else ("const", None)
        ok, why, data = _is_digest_of(t)
        if not ok and isinstance(s.value, ast.Call) and isinstance(s.value.func, ast.Attribute) and s.value.func.attr == "hexdigest" and isinstance(s.value.func.value, ast.Name):
            # h = hashlib.md5(); h.update(data); return h.hexdigest() - the incremental spelling with one update
            hn = s.value.func.value.id
            defs = [x for x in own_nodes(fi) if isinstance(x, ast.Assign) and len(x.targets) == 1 and isinstance(x.targets[0], ast.Name) and x.targets[0].id == hn]
            ups = [x for x in own_nodes(fi) if isinstance(x, ast.Expr) and isinstance(x.value, ast.Call) and isinstance(x.value.func, ast.Attribute) and x.value.func.attr == "update" and isinstance(x.value.func.value, ast.Name) and x.value.func.value.id == hn]
            other = [x for x in own_nodes(fi) if isinstance(x, ast.Name) and x.id == hn and isinstance(x.ctx, ast.Load)]
            if len(defs) == 1 and len(ups) == 1 and len(other) == 2 and len(ups[0].value.args) == 1 and fa.cfg.has_node(ups[0]):
                dt = strip_sites(fa.term_of(defs[0].value))
                if dt[0] == "app" and dt[1][0] == "global" and dt[1][1].startswith("hashlib.") and not dt[2] and fa.cfg.dominates(fa.cfg.node_of(defs[0]), fa.cfg.node_of(ups[0])) and fa.cfg.dominates(fa.cfg.node_of(ups[0]), n) and fa.cfg.postdominates(fa.cfg.node_of(ups[0]), fa.cfg.node_of(defs[0])):
                    ok, why, data = True, "", strip_sites(fa.term_of(ups[0].value.args[0]))
        run.check(ok, "C20.R1", fi, s, "return value is <hashlib algo>(data).hexdigest()", f"returned value is not the digest of the dump: {why}", term=show(t))
        if not ok:
            continue
        # data: bytes of the dump
        _check_data(run, fa, fi, s, n, data)


def _is_digest_of(t):
    # app(attr(app(global hashlib.x, (data,)), 'hexdigest'), ())
    if t[0] == "app" and t[1][0] == "attr" and t[1][2] in ("hexdigest",) and t[1][1][0] == "app":
        inner = t[1][1]
        if inner[1][0] == "global" and inner[1][1].startswith("hashlib.") and len(inner[2]) == 1:
            return True, "", inner[2][0]
        return False, f"inner call is {show(inner[1])}", None
    return False, f"shape {show(t)[:120]}", None


def _check_data(run: Run, fa, fi, ret_stmt, ret_node, data) -> None:
    """data must be the whole dump turned into bytes."""
    root_param = ("param", fi.pos_params[0])

    def is_dump(x):
        return x[0] == "app" and x[1] == ("global", "ast.dump") and x[2] and x[2][0] == root_param

    def per_char_ord(f):
        """map(ord, dump) | (ord(c) for c in dump) | [ord(c) for c in dump]"""
        if f[0] == "app" and f[1] == ("global", "builtins.map") and len(f[2]) == 2 and f[2][0] == ("global", "builtins.ord") and is_dump(f[2][1]):
            return True
        if f[0] == "comp" and f[1] in ("GeneratorExp", "ListComp") and len(f[3]) == 1 and not f[3][0][1] and is_dump(f[3][0][0]):
            return f[2] == ("app", ("global", "builtins.ord"), (("elem", f[3][0][0]),), ())
        return False

    def is_encode(f):
        return f[0] == "app" and f[1][0] == "attr" and f[1][2] == "encode" and is_dump(f[1][1])

    # dump.encode(...)
    if is_encode(data):
        run.ok("C20.R1", fi, "digest input is ast.dump(a).encode(..)", show(data))
        run.ok("C20.R5", fi, "text->bytes via str.encode (codec checked at the call)")
        return
    # bytearray()/bytes() filled once: bytes(map(ord, dump)) / b = bytearray(); b.extend(<per-character ord of the dump>)
    feeds = []
    base = data
    while base[0] == "concat":
        feeds.insert(0, base[2])
        base = base[1]
    if base[0] == "app" and base[1][0] == "global" and base[1][1] in ("builtins.bytearray", "builtins.bytes"):
        if base[2]:
            feeds.insert(0, base[2][0])
        run.check(len(feeds) == 1, "C20.R1", fi, ret_stmt, "byte buffer is filled exactly once", f"byte buffer is filled {len(feeds)} times: {show(data)[:160]}")
        for f in feeds:
            if per_char_ord(f):
                run.ok("C20.R1", fi, "digest input is the per-character ord() of ast.dump(a)", show(f))
                run.fail("C20.R5", fi, ret_stmt, "per-character ord() into a byte buffer: any character above U+00FF raises ValueError, the hash is not total on queries", "ast.dump(a).encode('utf-8')", show(f), key="text -> bytes by map(ord, dump) into a bytearray")
            elif is_encode(f):
                run.ok("C20.R1", fi, "digest input is ast.dump(a).encode(..)", show(f))
            else:
                run.fail("C20.R1", fi, ret_stmt, f"digest input is not the dump: {show(f)[:160]}")
        return
    run.fail("C20.R1", fi, ret_stmt, f"digest input is not derived from ast.dump alone: {show(data)[:160]}", "ast.dump(a) -> bytes")
