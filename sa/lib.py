"""Shared helpers for rule modules: syntactic queries, fact matchers, small utilities."""
from __future__ import annotations

import ast
from typing import Any, Callable, Dict, Iterator, List, Optional, Sequence, Set, Tuple

from .cfg import CFG, CNode
from .model import AnalysisError, FuncInfo, Model, ancestors, dotted, parent
from .terms import FuncAnalysis, Term, TermCtx, show, strip_sites, strip_visits, subterms


def own_nodes(fi: FuncInfo) -> Iterator[ast.AST]:
    """ast nodes of fi's body, not crossing into nested def/class bodies (lambdas are included)."""
    st: List[ast.AST] = list(fi.node.body)
    while st:
        n = st.pop()
        yield n
        if isinstance(n, (ast.FunctionDef, ast.AsyncFunctionDef, ast.ClassDef)):
            continue
        st.extend(ast.iter_child_nodes(n))


def calls_in(fi: FuncInfo) -> List[ast.Call]:
    return sorted((n for n in own_nodes(fi) if isinstance(n, ast.Call)), key=lambda c: (c.lineno, c.col_offset))


def stmt_of(n: ast.AST) -> ast.AST:
    x: Optional[ast.AST] = n
    while x is not None and not isinstance(x, ast.stmt):
        x = parent(x)
    return x or n


def callee_name(c: ast.Call) -> Optional[str]:
    return dotted(c.func)


# ---------------------------------------------------------------------------------- facts
class Facts:
    """Facts (branch/assert conditions) holding at an expression, with alias-robust subject terms."""

    def __init__(self, fa: FuncAnalysis, at_expr: ast.AST, expand: bool = True, _depth: int = 2, binding: Optional[Dict[Term, Term]] = None):
        self.fa = fa
        self.at = at_expr
        self.binding = binding or None
        raw = fa.cfg.expr_facts(at_expr)
        atoms: List[Tuple[ast.AST, bool]] = []
        for a, pol in raw:
            atoms.append(norm_atom(a, pol))
        if expand:
            atoms = expand_atoms(fa, atoms)
            atoms = atoms + caller_context_atoms(fa, _depth)
            atoms = atoms + guard_call_atoms(fa, at_expr)
        self.atoms = atoms

    def _term(self, e: ast.AST) -> Term:
        try:
            t = strip_sites(self.fa.term_of(e))
        except AnalysisError:
            return ("top", "no node")
        if self.binding:
            from .terms import subst

            t = subst(t, self.binding)
        return t

    def isinstance_of(self, subject: Term, classes: Set[str]) -> bool:
        """isinstance(subject, C) / type(subject) is C holds for some C in classes (dotted, e.g. 'ast.Constant')."""
        subject = strip_sites(subject)
        for fx, pol in self.atoms:
            got = match_isinstance(fx)
            if got is None:
                continue
            subj_e, cls_es, exact = got
            if not pol:
                continue
            names = {self._cls_name(c) for c in cls_es}
            if names and names <= classes and self._term(subj_e) == subject:
                return True
        return False

    def _cls_name(self, e: ast.AST) -> str:
        t = self._term(e)
        if t[0] == "global":
            return t[1]
        return dotted(e) or "?"

    def holds(self, pred: Callable[[ast.AST, bool], bool]) -> bool:
        return any(pred(fx, pol) for fx, pol in self.atoms)

    def compare_const(self, subject: Term, ops: Sequence[type], value: Any) -> bool:
        """a fact `subject <op> value` (True) or its negation-equivalent holds."""
        subject = strip_sites(subject)
        for fx, pol in self.atoms:
            if isinstance(fx, ast.Compare) and len(fx.ops) == 1:
                l, r = fx.left, fx.comparators[0]
                op = type(fx.ops[0])
                if not pol:
                    op = NEG.get(op)
                if op is None:
                    continue
                if isinstance(r, ast.Constant) and r.value == value and type(r.value) is type(value) and op in ops and self._term(l) == subject:
                    return True
                if isinstance(l, ast.Constant) and l.value == value and type(l.value) is type(value) and FLIP.get(op) in ops and self._term(r) == subject:
                    return True
        return False

    def str_equals(self, subject: Term) -> Set[str]:
        """string constants c for which `subject == c` is known true (incl. `a == c1 or a == c2`, `a in (c1, c2)`)."""
        subject = strip_sites(subject)
        out: Set[str] = set()
        for fx, pol in self.atoms:
            if not pol:
                # not (a != c)  ==  a == c
                if isinstance(fx, ast.Compare) and len(fx.ops) == 1 and isinstance(fx.ops[0], ast.NotEq):
                    eq = ast.Compare(left=fx.left, ops=[ast.Eq()], comparators=fx.comparators)
                    out |= self._str_alts(eq, subject)
                continue
            out |= self._str_alts(fx, subject)
        return out

    def _named_const(self, e: ast.AST) -> ast.AST:
        """a module-level name bound (once, to a string literal) stands for that literal"""
        if isinstance(e, ast.Name) and e.id not in self.fa.locals and e.id not in self.fa.fi.params:
            from .terms import resolve_global_consts

            m_ = self.fa.model
            t_ = resolve_global_consts(m_, ("global", m_.resolve_dotted(self.fa.fi.module, self.fa.fi, e.id)))
            if t_[0] == "const" and isinstance(t_[1], str):
                return ast.copy_location(ast.Constant(value=t_[1]), e)
        return e

    def _str_alts(self, fx: ast.AST, subject: Term) -> Set[str]:
        if isinstance(fx, ast.BoolOp) and isinstance(fx.op, ast.Or):
            alts = [self._str_alts(v, subject) for v in fx.values]
            return set().union(*alts) if all(alts) else set()
        if isinstance(fx, ast.Compare) and len(fx.ops) == 1:
            l, r = self._named_const(fx.left), self._named_const(fx.comparators[0])
            if isinstance(fx.ops[0], ast.Eq):
                if isinstance(r, ast.Constant) and isinstance(r.value, str) and self._term(l) == subject:
                    return {r.value}
                if isinstance(l, ast.Constant) and isinstance(l.value, str) and self._term(r) == subject:
                    return {l.value}
            if isinstance(fx.ops[0], ast.In) and isinstance(r, (ast.Tuple, ast.List, ast.Set)) and self._term(l) == subject:
                if all(isinstance(x, ast.Constant) and isinstance(x.value, str) for x in r.elts):
                    return {x.value for x in r.elts}  # type: ignore
        return set()


NEG = {ast.Eq: ast.NotEq, ast.NotEq: ast.Eq, ast.Lt: ast.GtE, ast.GtE: ast.Lt, ast.Gt: ast.LtE, ast.LtE: ast.Gt, ast.Is: ast.IsNot, ast.IsNot: ast.Is, ast.In: ast.NotIn, ast.NotIn: ast.In}
FLIP = {ast.Eq: ast.Eq, ast.NotEq: ast.NotEq, ast.Lt: ast.Gt, ast.Gt: ast.Lt, ast.LtE: ast.GtE, ast.GtE: ast.LtE, ast.Is: ast.Is, ast.IsNot: ast.IsNot}


def norm_atom(fx: ast.AST, pol: bool) -> Tuple[ast.AST, bool]:
    """`a is not b` False -> `a is b` True;  `a != b` False -> `a == b` True (and the converse)."""
    if isinstance(fx, ast.Compare) and len(fx.ops) == 1 and type(fx.ops[0]) in (ast.IsNot, ast.NotEq, ast.NotIn):
        flip = {ast.IsNot: ast.Is, ast.NotEq: ast.Eq, ast.NotIn: ast.In}[type(fx.ops[0])]
        return ast.Compare(left=fx.left, ops=[flip()], comparators=fx.comparators), not pol
    # all(map(p, xs)) / any(map(p, xs))  ==  all(p(x) for x in xs) / any(..)
    if isinstance(fx, ast.Call) and isinstance(fx.func, ast.Name) and fx.func.id in ("all", "any") and len(fx.args) == 1 and not fx.keywords and isinstance(fx.args[0], ast.Call) and isinstance(fx.args[0].func, ast.Name) and fx.args[0].func.id == "map" and len(fx.args[0].args) == 2 and isinstance(fx.args[0].args[0], (ast.Name, ast.Attribute)):
        mp = fx.args[0]
        var = ast.copy_location(ast.Name(id="_each", ctx=ast.Load()), mp)
        tgt = ast.copy_location(ast.Name(id="_each", ctx=ast.Store()), mp)
        call = ast.copy_location(ast.Call(func=mp.args[0], args=[var], keywords=[]), mp)
        gen = ast.copy_location(ast.GeneratorExp(elt=call, generators=[ast.comprehension(target=tgt, iter=mp.args[1], ifs=[], is_async=0)]), mp)
        fx = ast.copy_location(ast.Call(func=fx.func, args=[gen], keywords=[]), fx)
    # all(not P(x) for x in xs)  ==  not any(P(x) for x in xs)
    if isinstance(fx, ast.Call) and isinstance(fx.func, ast.Name) and fx.func.id == "all" and len(fx.args) == 1 and not fx.keywords and isinstance(fx.args[0], (ast.GeneratorExp, ast.ListComp)) and isinstance(fx.args[0].elt, ast.UnaryOp) and isinstance(fx.args[0].elt.op, ast.Not):
        g = fx.args[0]
        new_g = ast.copy_location(ast.GeneratorExp(elt=g.elt.operand, generators=g.generators), g)
        return ast.copy_location(ast.Call(func=ast.copy_location(ast.Name(id="any", ctx=ast.Load()), fx.func), args=[new_g], keywords=[]), fx), not pol
    return fx, pol


def clone_ast(n):
    """structural copy over _fields only (never follows the _parent back-pointers)."""
    if isinstance(n, ast.AST):
        new = n.__class__()
        for f in n._fields:
            if hasattr(n, f):
                setattr(new, f, clone_ast(getattr(n, f)))
        for a in ("lineno", "col_offset", "end_lineno", "end_col_offset"):
            if hasattr(n, a):
                setattr(new, a, getattr(n, a))
        return new
    if isinstance(n, list):
        return [clone_ast(x) for x in n]
    return n


class _Subst(ast.NodeTransformer):
    def __init__(self, mapping):
        self.mapping = mapping

    def visit_Name(self, node):
        if isinstance(node.ctx, ast.Load) and node.id in self.mapping:
            import copy as _copy

            new = self.mapping[node.id]
            return new
        return node


def _predicate_body(fi: FuncInfo) -> Optional[List[Tuple[List[Tuple[ast.AST, bool]], ast.AST]]]:
    """For a small predicate function: list of (path conditions, returned expression) - straight-line
    if/return structure only (no loops, no assignments other than to fresh locals that are not used in tests)."""
    out = []
    # locals assigned exactly once, at the top level of the body, from an expression without calls that could
    # have effects other than the pure builtins: they are names for sub-expressions and are substituted away
    stores: Dict[str, int] = {}
    for n in own_nodes(fi):
        if isinstance(n, ast.Name) and isinstance(n.ctx, ast.Store):
            stores[n.id] = stores.get(n.id, 0) + 1
    env: Dict[str, ast.AST] = {}

    def sub(e):
        return _Subst({k: clone_ast(v) for k, v in env.items()}).visit(clone_ast(e)) if env else e

    def walk(stmts, conds):
        for i, s in enumerate(stmts):
            if isinstance(s, ast.Expr) and isinstance(s.value, ast.Constant):
                continue  # docstring
            if isinstance(s, ast.Expr) and isinstance(s.value, ast.Call) and isinstance(s.value.func, ast.Attribute) and s.value.func.attr in ("info", "debug", "warning", "error", "log") and "logging" in ast.unparse(s.value.func.value):
                continue  # a log message: says something, decides nothing
            if isinstance(s, (ast.Assign, ast.AnnAssign)) and s.value is not None:
                tg = s.targets[0] if isinstance(s, ast.Assign) and len(s.targets) == 1 else (s.target if isinstance(s, ast.AnnAssign) else None)
                # the expression is only *named*: substituting it is sound for deterministic, effect-free expressions; calls
                # of container mutators and of visit / generic_visit are not that
                pure = not any(isinstance(c.func, ast.Attribute) and c.func.attr in ("append", "extend", "pop", "remove", "insert", "clear", "update", "add", "visit", "generic_visit", "setdefault", "popitem", "sort", "reverse") for c in ast.walk(s.value) if isinstance(c, ast.Call))
                if isinstance(tg, ast.Name) and stores.get(tg.id) == 1 and tg.id not in fi.params and pure:
                    env[tg.id] = sub(s.value)
                    continue
                return None
            if isinstance(s, ast.Return):
                out.append((list(conds), sub(s.value) if s.value is not None else ast.Constant(value=None)))
                return True
            if isinstance(s, ast.If):
                from .cfg import facts_false, facts_true

                s = ast.If(test=sub(s.test), body=s.body, orelse=s.orelse)
                rest = list(stmts[i + 1:])
                # each branch continues with what follows the if (a branch that does not return falls through)
                t_done = walk(list(s.body) + rest, conds + facts_true(s.test))
                if t_done is None:
                    return None
                e_done = walk(list(s.orelse) + rest, conds + facts_false(s.test))
                if e_done is None:
                    return None
                return bool(t_done and e_done)
            return None  # anything else: not a simple predicate
        return False

    r = walk(list(fi.node.body), [])
    if r is None or not out:
        return None
    return out


class _GetattrConst(ast.NodeTransformer):
    """getattr(x, "name") with a constant identifier is x.name"""

    def visit_Call(self, node: ast.Call):
        self.generic_visit(node)
        if isinstance(node.func, ast.Name) and node.func.id == "getattr" and len(node.args) == 2 and not node.keywords and isinstance(node.args[1], ast.Constant) and isinstance(node.args[1].value, str) and node.args[1].value.isidentifier():
            return ast.copy_location(ast.Attribute(value=node.args[0], attr=node.args[1].value, ctx=ast.Load()), node)
        return node


def expand_atoms(fa: FuncAnalysis, atoms: List[Tuple[ast.AST, bool]], depth: int = 2) -> List[Tuple[ast.AST, bool]]:
    """Add the facts implied by calls of small package predicate helpers and by boolean flag variables:
    `helper(x)` True  ->  conditions under which helper returns a truthy value, with parameters replaced by
    the argument expressions (only when helper has one truthy-returning path or the fact is False and it has
    one falsy-returning path... conservatively: single `return <expr>` bodies, and if/return chains)."""
    from .cfg import facts_false, facts_true

    m = fa.model
    out = list(atoms)
    seen = set()
    work = list(atoms)
    while work and depth >= 0:
        nxt = []
        for a, pol in work:
            key = (ast.dump(a), pol, id(a) if isinstance(a, ast.Name) else 0)  # a flag re-assigned from itself reads differently at each place
            if key in seen:
                continue
            seen.add(key)
            # boolean flag variable with a single definition in this function
            if isinstance(a, ast.Name) and a.id in fa.locals:
                defs = [n for n in _own(fa.fi) if isinstance(n, ast.Assign) and len(n.targets) == 1 and isinstance(n.targets[0], ast.Name) and n.targets[0].id == a.id]
                value = None
                if len(defs) == 1:
                    value = defs[0].value
                if not defs:
                    # flag, value = helper(args): the flag is one component of what a small package helper returns; when
                    # exactly one of its returns has that component true (false), the conditions of that return hold
                    tdefs = [(n, i_) for n in _own(fa.fi) if isinstance(n, ast.Assign) and len(n.targets) == 1 and isinstance(n.targets[0], ast.Tuple) for i_, e_ in enumerate(n.targets[0].elts) if isinstance(e_, ast.Name) and e_.id == a.id]
                    if len(tdefs) == 1 and isinstance(tdefs[0][0].value, ast.Call) and not tdefs[0][0].value.keywords:
                        call_, comp = tdefs[0][0].value, tdefs[0][1]
                        callee_ = None
                        skip_ = 0
                        if isinstance(call_.func, ast.Name):
                            tgt_ = m.lookup_target(m.resolve_dotted(fa.fi.module, fa.fi, call_.func.id))
                            callee_ = tgt_ if isinstance(tgt_, FuncInfo) else None
                        elif isinstance(call_.func, ast.Attribute) and isinstance(call_.func.value, ast.Name) and fa.fi.cls is not None and fa.fi.pos_params and call_.func.value.id == fa.fi.pos_params[0]:
                            callee_ = m.find_method(fa.fi.cls, call_.func.attr)
                            skip_ = 0 if (callee_ is not None and "staticmethod" in callee_.decorators) else 1
                        paths_ = _predicate_body(callee_) if callee_ is not None and callee_ is not fa.fi and len(callee_.node.body) <= 12 else None
                        if paths_ and all(isinstance(r_, ast.Tuple) and comp < len(r_.elts) and isinstance(r_.elts[comp], ast.Constant) for _c, r_ in paths_) and len(callee_.pos_params[skip_:]) == len(call_.args):
                            sel = [(c_, r_) for c_, r_ in paths_ if bool(r_.elts[comp].value) == pol]
                            if len(sel) == 1:
                                mapping_ = dict(zip(callee_.pos_params[skip_:], call_.args))
                                new = []
                                for x, p in sel[0][0]:
                                    x2 = _Subst({k: clone_ast(v) for k, v in mapping_.items()}).visit(clone_ast(x))
                                    _attach(x2, call_)
                                    new.append(norm_atom(x2, p))
                                out += new
                                nxt += new
                    continue
                elif len(defs) > 1 and fa.cfg.has_node(a) and all(isinstance(d_.value, ast.Constant) and isinstance(d_.value.value, bool) for d_ in defs) and sum(1 for d_ in defs if d_.value.value == pol) == 1 and not any(isinstance(n_, ast.Name) and n_.id == a.id and isinstance(n_.ctx, ast.Store) and not any(n_ is d_.targets[0] for d_ in defs) for n_ in ast.walk(fa.fi.node)):
                    # found = False .. found = True .. found = False: every definition is a boolean constant and only one has
                    # the value seen by the test - the conditions under which that one is made hold (as far as they speak of
                    # names that are bound once)
                    the = next(d_ for d_ in defs if d_.value.value == pol)
                    if fa.cfg.has_node(the):
                        once = {nm for nm in fa.locals if sum(1 for n_ in ast.walk(fa.fi.node) if isinstance(n_, ast.Name) and n_.id == nm and isinstance(n_.ctx, (ast.Store, ast.Del))) <= 1} | set(fa.fi.params)
                        new = []
                        for x, p in fa.cfg.expr_facts(the):
                            nm_ = {n_.id for n_ in ast.walk(x) if isinstance(n_, ast.Name)}
                            if all(n_ in once or n_ not in fa.locals for n_ in nm_):
                                new.append(norm_atom(x, p))
                        out += new
                        nxt += new
                    continue
                elif len(defs) > 1 and fa.cfg.has_node(a):
                    # several assignments (flag = A; flag = flag or B): the one that reaches this test
                    rd = fa._rd_in.get(fa.cfg.node_of(a), {}).get(a.id)
                    if rd is not None and len(rd) == 1:
                        d0 = next(iter(rd))
                        if d0.kind == "assign" and d0.path == () and isinstance(d0.payload, ast.AST) and fa.cfg.has_node(d0.payload):
                            value = d0.payload
                if value is not None and not isinstance(value, ast.Constant):
                    new = facts_true(value) if pol else facts_false(value)
                    new = [norm_atom(x, p) for x, p in new]
                    out += new
                    nxt += new
                continue
            # found = next((x for x in xs if COND), SENTINEL); `found is not SENTINEL` -> COND holds for the element found
            if isinstance(a, ast.Compare) and len(a.ops) == 1 and isinstance(a.ops[0], (ast.Is, ast.IsNot)) and isinstance(a.left, ast.Name) and a.left.id in fa.locals:
                differs = isinstance(a.ops[0], ast.IsNot) == pol
                sdefs = [n for n in _own(fa.fi) if isinstance(n, ast.Assign) and len(n.targets) == 1 and isinstance(n.targets[0], ast.Name) and n.targets[0].id == a.left.id]
                if differs and len(sdefs) == 1 and isinstance(sdefs[0].value, ast.Call) and isinstance(sdefs[0].value.func, ast.Name) and sdefs[0].value.func.id == "next" and len(sdefs[0].value.args) == 2:
                    gen, sentinel = sdefs[0].value.args
                    if isinstance(gen, ast.GeneratorExp) and len(gen.generators) == 1 and ast.dump(sentinel) == ast.dump(a.comparators[0]):
                        new = []
                        for cond_ in gen.generators[0].ifs:
                            new += [norm_atom(x, p) for x, p in facts_true(cond_)]
                        out += new
                        nxt += new
                continue
            if not (isinstance(a, ast.Call) and not a.keywords):
                continue
            if isinstance(a.func, ast.Name) and a.func.id in ("any", "all") and len(a.args) == 1 and isinstance(a.args[0], (ast.GeneratorExp, ast.ListComp)) and ((a.func.id == "any") != pol):
                # not any(P(f) for f in ("a", "b"))  is  not P("a") and not P("b")   (all(..) true likewise): a literal
                # tuple of constants, given in place or as a module-level name that nothing writes
                g_ = a.args[0]
                if len(g_.generators) == 1 and not g_.generators[0].ifs and isinstance(g_.generators[0].target, ast.Name):
                    it_ = g_.generators[0].iter
                    lit_ = it_ if isinstance(it_, (ast.Tuple, ast.List)) else None
                    if isinstance(it_, ast.Name) and it_.id not in fa.locals and it_.id not in fa.fi.params:
                        tgt_m = m.resolve_dotted(fa.fi.module, fa.fi, it_.id)
                        mod_, _, nm_ = tgt_m.rpartition(".")
                        mi_ = m.modules.get(mod_)
                        cand = mi_.assigns.get(nm_) if mi_ is not None else None
                        written = any(isinstance(n_, ast.Name) and n_.id == nm_ and isinstance(n_.ctx, (ast.Store, ast.Del)) for f_ in m.funcs.values() if f_.module is mi_ for n_ in own_nodes(f_)) if mi_ is not None else True
                        if isinstance(cand, (ast.Tuple, ast.List)) and not written:
                            lit_ = cand
                    if lit_ is not None and lit_.elts and all(isinstance(e_, ast.Constant) for e_ in lit_.elts):
                        new = []
                        for e_ in lit_.elts:
                            x2 = _Subst({g_.generators[0].target.id: clone_ast(e_)}).visit(clone_ast(g_.elt))
                            x2 = _GetattrConst().visit(x2)
                            ast.fix_missing_locations(x2)
                            _attach(x2, a)
                            new += [norm_atom(y_, p_) for y_, p_ in (facts_false(x2) if a.func.id == "any" else facts_true(x2))]
                        out += new
                        nxt += new
                continue
            callee = None
            f = a.func
            if isinstance(f, ast.Name):
                tgt = m.lookup_target(m.resolve_dotted(fa.fi.module, fa.fi, f.id))
                callee = tgt if isinstance(tgt, FuncInfo) else None
                skip = 0
            elif isinstance(f, ast.Attribute) and isinstance(f.value, ast.Name) and fa.fi.cls is not None and fa.fi.pos_params and f.value.id == fa.fi.pos_params[0]:
                callee = m.find_method(fa.fi.cls, f.attr)
                skip = 0 if (callee is not None and "staticmethod" in callee.decorators) else 1
            if callee is None or callee is fa.fi or len(callee.node.body) > 12:
                continue
            paths = _predicate_body(callee)
            if paths is None:
                continue
            params = callee.pos_params[skip:]
            if len(params) != len(a.args):
                continue
            mapping = dict(zip(params, a.args))
            truthy = [(c, r) for c, r in paths if not (isinstance(r, ast.Constant) and not r.value)]
            falsy = [(c, r) for c, r in paths if not (isinstance(r, ast.Constant) and r.value)]
            chosen = None
            if pol and len(truthy) == 1:
                c, r = truthy[0]
                chosen = list(c) + ([] if isinstance(r, ast.Constant) else facts_true(r))
            elif (not pol) and len(falsy) == 1:
                c, r = falsy[0]
                chosen = list(c) + ([] if isinstance(r, ast.Constant) else facts_false(r))
            if chosen is None:
                continue
            import copy as _copy

            new = []
            for x, p in chosen:
                x2 = _Subst({k: clone_ast(v) for k, v in mapping.items()}).visit(clone_ast(x))
                # keep the substituted expression attached to the call's position for term evaluation
                for sub in ast.walk(x2):
                    if not hasattr(sub, "_parent"):
                        pass
                _attach(x2, a)
                new.append(norm_atom(x2, p))
            out += new
            nxt += new
        work = nxt
        depth -= 1
    return out


def call_sites_of(model: Model, fi: FuncInfo) -> List[Tuple[FuncInfo, ast.Call, int]]:
    """(caller, call node, number of leading formals bound implicitly) for every resolved call of fi in the package."""
    idx = model.__dict__.get("_call_site_index")
    if idx is None:
        idx = {}
        for f in model.funcs.values():
            for c in calls_in(f):
                g = None
                skip = 0
                fn = c.func
                if isinstance(fn, ast.Name):
                    tgt = model.lookup_target(model.resolve_dotted(f.module, f, fn.id))
                    g = tgt if isinstance(tgt, FuncInfo) else None
                elif isinstance(fn, ast.Attribute) and isinstance(fn.value, ast.Name) and f.cls is not None and f.pos_params and fn.value.id == f.pos_params[0]:
                    g = model.find_method(f.cls, fn.attr)
                    skip = 0 if (g is not None and "staticmethod" in g.decorators) else 1
                if g is not None:
                    idx.setdefault(g.qual, []).append((f, c, skip))
        model.__dict__["_call_site_index"] = idx
    return idx.get(fi.qual, [])


def guard_call_atoms(fa: FuncAnalysis, at_expr: ast.AST) -> List[Tuple[ast.AST, bool]]:
    """Facts established by a *guard helper*: a statement `_require_x(a, b)` that dominates the place, where the private
    function _require_x is nothing but `if COND: raise ..` (one or several, an optional final bare return). After the
    call has returned, COND with the parameters replaced by the arguments is false - exactly as if the test stood
    in line."""
    m = fa.model
    fi = fa.fi
    cfg = fa.cfg
    if not cfg.has_node(at_expr):
        return []
    at_n = cfg.node_of(at_expr)
    out: List[Tuple[ast.AST, bool]] = []
    for st in _own(fi):
        if not (isinstance(st, ast.Expr) and isinstance(st.value, ast.Call) and cfg.has_node(st)):
            continue
        n = cfg.node_of(st)
        if n is at_n or not cfg.dominates(n, at_n):
            continue
        call = st.value
        h = None
        skip = 0
        if isinstance(call.func, ast.Name):
            tgt = m.lookup_target(m.resolve_dotted(fi.module, fi, call.func.id))
            h = tgt if isinstance(tgt, FuncInfo) else None
        elif isinstance(call.func, ast.Attribute) and isinstance(call.func.value, ast.Name) and fi.cls is not None and fi.pos_params and call.func.value.id == fi.pos_params[0]:
            h = m.find_method(fi.cls, call.func.attr)
            skip = 0 if (h is not None and "staticmethod" in h.decorators) else 1
        if h is None or isinstance(h.node, ast.Lambda) or not h.is_private:
            continue
        body = [b for b in h.node.body if not (isinstance(b, ast.Expr) and isinstance(b.value, ast.Constant))]
        tests = []
        ok = bool(body)
        for i, b in enumerate(body):
            if isinstance(b, ast.If) and not b.orelse and len(b.body) == 1 and isinstance(b.body[0], ast.Raise):
                tests.append(b.test)
            elif isinstance(b, ast.Return) and i == len(body) - 1 and (b.value is None or (isinstance(b.value, ast.Constant) and b.value.value is None)):
                pass
            else:
                ok = False
        if not ok or not tests or any(isinstance(a, ast.Starred) for a in call.args):
            continue
        mapping: Dict[str, ast.AST] = {}
        for p_, a_ in zip(h.pos_params[skip:], call.args):
            mapping[p_] = a_
        for k_ in call.keywords:
            if k_.arg is not None:
                mapping[k_.arg] = k_.value
        params = set(h.pos_params[skip:]) | {a.arg for a in h.node.args.kwonlyargs}
        if not params <= set(mapping):
            continue

        class _S(ast.NodeTransformer):
            def visit_Name(self_, nm):
                if isinstance(nm.ctx, ast.Load) and nm.id in mapping:
                    c_ = clone_ast(mapping[nm.id])
                    return c_
                return nm

        for t in tests:
            t2 = _S().visit(clone_ast(t))
            ast.fix_missing_locations(t2)
            for x_ in ast.walk(t2):
                for c_ in ast.iter_child_nodes(x_):
                    c_._parent = x_  # type: ignore
            t2._parent = st  # type: ignore  # evaluated where the call stands
            out.append(norm_atom(t2, False))
    return out


def caller_context_atoms(fa: FuncAnalysis, depth: int = 2) -> List[Tuple[ast.AST, bool]]:
    """For a private helper: the facts that hold at *every* one of its call sites, translated into the
    helper's own vocabulary (sub-expressions equal to an actual argument are replaced by the formal's name).
    This makes "the guard is in the caller, the work in an extracted helper" equivalent to the inline form."""
    fi = fa.fi
    if depth <= 0 or isinstance(fi.node, ast.Lambda):
        return []
    private = fi.is_private or fi.parent_func is not None
    if not private or fi.name.startswith(("visit_", "call_")) or fi.name in ("generic_visit", "visit"):
        return []
    sites = call_sites_of(fa.model, fi)
    if not sites or len(sites) > 4:
        return []
    common: Optional[Dict[str, Tuple[ast.AST, bool]]] = None
    anchor = next((st for st in fi.node.body if fa.cfg.has_node(st)), None)
    if anchor is None:
        return []
    for caller, call, skip in sites:
        if caller is fi:
            continue
        try:
            cfa = fa.ctx.analysis(caller)
            if not cfa.cfg.has_node(call):
                return []
            cf = Facts(cfa, call, True, depth - 1)
        except AnalysisError:
            return []
        formals = fi.pos_params[skip:]
        actual_terms = []
        for p_, a in zip(formals, call.args):
            actual_terms.append((p_, strip_sites(cfa.term_of(a))))
        for k in call.keywords:
            if k.arg:
                actual_terms.append((k.arg, strip_sites(cfa.term_of(k.value))))
        if skip and caller.pos_params:
            actual_terms.append((fi.pos_params[0], ("param", caller.pos_params[0])))
        mine: Dict[str, Tuple[ast.AST, bool]] = {}
        for a, pol in cf.atoms:
            tr = _translate(cfa, a, actual_terms, set(fi.params))
            if tr is None:
                continue
            _attach(tr, anchor)
            tr._parent = anchor  # type: ignore  # evaluated at the helper's first statement: names are its formals
            mine[("+" if pol else "-") + ast.dump(tr)] = (tr, pol)
        common = mine if common is None else {k: v for k, v in common.items() if k in mine}
    return list((common or {}).values())


def _translate(cfa: FuncAnalysis, a: ast.AST, actual_terms, formals: Set[str]) -> Optional[ast.AST]:
    """copy of atom a with every sub-expression whose term equals an actual argument replaced by the formal name;
    None if some caller-local name remains."""
    import builtins as _b

    def go(n):
        if isinstance(n, ast.expr) and not isinstance(n, ast.Constant):
            try:
                t = strip_sites(cfa.term_of(n)) if cfa.cfg.has_node(n) else None
            except AnalysisError:
                t = None
            if t is not None:
                for formal, at in actual_terms:
                    if t == at:
                        return ast.Name(id=formal, ctx=ast.Load())
        if isinstance(n, ast.AST):
            new = n.__class__()
            for f in n._fields:
                if hasattr(n, f):
                    v = getattr(n, f)
                    setattr(new, f, [go(x) for x in v] if isinstance(v, list) else go(v))
            for att in ("lineno", "col_offset"):
                if hasattr(n, att):
                    setattr(new, att, getattr(n, att))
            return new
        return n

    out = go(a)
    caller_locals = _locals_of(cfa.fi)
    for x in ast.walk(out):
        if isinstance(x, ast.Name) and x.id not in formals and x.id in caller_locals:
            return None
    return out


def _locals_of(fi: FuncInfo) -> Set[str]:
    """names bound in fi or in a function enclosing it (they mean something else inside a helper)"""
    cache = fi.__dict__.setdefault("_locals_cache", None) if hasattr(fi, "__dict__") else None
    if cache is not None:
        return cache
    out: Set[str] = set()
    f: Optional[FuncInfo] = fi
    while f is not None:
        out |= set(f.params)
        for n in own_nodes(f):
            if isinstance(n, ast.Name) and isinstance(n.ctx, (ast.Store, ast.Del)):
                out.add(n.id)
            elif isinstance(n, (ast.FunctionDef, ast.AsyncFunctionDef, ast.ClassDef)) and n is not f.node:
                out.add(n.name)
            elif isinstance(n, (ast.Import, ast.ImportFrom)):
                out |= {(al.asname or al.name).split(".")[0] for al in n.names}
        f = f.parent_func
    if hasattr(fi, "__dict__"):
        fi.__dict__["_locals_cache"] = out
    return out


def _attach(new: ast.AST, anchor: ast.AST) -> None:
    """give a synthesised expression the parent of `anchor` so that term_of can locate its CFG node."""
    from .model import parent as _parent

    p = _parent(anchor)
    new._parent = p  # type: ignore
    for n in ast.walk(new):
        for c in ast.iter_child_nodes(n):
            if getattr(c, "_parent", None) is None or True:
                try:
                    c._parent = n  # type: ignore
                except Exception:
                    pass
    new._parent = p  # type: ignore


def _own(fi: FuncInfo):
    return own_nodes(fi)


def match_isinstance(fx: ast.AST) -> Optional[Tuple[ast.AST, List[ast.AST], bool]]:
    """isinstance(x, C) | isinstance(x, (C1, C2)) | type(x) is C | type(x) == C  ->  (x, [C..], exact)"""
    if isinstance(fx, ast.Call) and isinstance(fx.func, ast.Name) and fx.func.id == "isinstance" and len(fx.args) == 2:
        c = fx.args[1]
        return fx.args[0], (list(c.elts) if isinstance(c, ast.Tuple) else [c]), False
    if isinstance(fx, ast.Compare) and len(fx.ops) == 1 and isinstance(fx.ops[0], (ast.Is, ast.Eq)):
        l = fx.left
        if isinstance(l, ast.Call) and isinstance(l.func, ast.Name) and l.func.id == "type" and len(l.args) == 1:
            return l.args[0], [fx.comparators[0]], True
    return None


def len_eq(fx: ast.AST) -> Optional[Tuple[ast.AST, str, int]]:
    """len(x) <op> n  ->  (x, opname, n)"""
    if isinstance(fx, ast.Compare) and len(fx.ops) == 1:
        l, r = fx.left, fx.comparators[0]
        if isinstance(l, ast.Call) and isinstance(l.func, ast.Name) and l.func.id == "len" and len(l.args) == 1 and isinstance(r, ast.Constant) and isinstance(r.value, int):
            return l.args[0], type(fx.ops[0]).__name__, r.value
    return None


def pop_is_lifo(x) -> bool:
    """a list pop that removes the newest entry: pop() or pop(-1).  `x` is an Event (argument terms) or an ast.Call"""
    if isinstance(x, ast.Call):
        if x.keywords or len(x.args) > 1:
            return False
        if not x.args:
            return True
        a = x.args[0]
        return isinstance(a, ast.UnaryOp) and isinstance(a.op, ast.USub) and isinstance(a.operand, ast.Constant) and a.operand.value == 1
    if getattr(x, "kws", ()):
        return False
    return not x.args or tuple(x.args) == (("const", -1),)


def known_empty(atoms, name: str) -> Optional[bool]:
    """what the facts say about the local list `name`: True = empty, False = not empty, None = nothing.
    `len(x) == 0`, `len(x) > 0`, `not x`, `x` are all read."""
    for a, pol in atoms:
        if isinstance(a, ast.Name) and a.id == name:
            return not pol
        le = len_eq(a)
        if le is not None and isinstance(le[0], ast.Name) and le[0].id == name:
            _x, op, k = le
            if (op == "Eq" and k == 0) or (op == "LtE" and k == 0) or (op == "Lt" and k == 1):
                return pol
            if (op == "NotEq" and k == 0) or (op == "Gt" and k == 0) or (op == "GtE" and k == 1):
                return not pol
    return None


def nonnull_at(fa: FuncAnalysis) -> Dict[Any, Set[str]]:
    """forward must-analysis: the local names that are known not to be None on entry to each CFG node.
    A name becomes known through an edge fact (`x is not None`, a false `x is None`, a true `x`), through an assignment of a
    display, a non-None constant, a constructed object, or of a name that is known; an assignment of anything else forgets
    it; paths meet by intersection."""
    from .cfg import assigned_names

    cfg = fa.cfg

    def edge_gen(facts) -> Set[str]:
        out: Set[str] = set()
        for a, pol in facts:
            if isinstance(a, ast.Name) and pol:
                out.add(a.id)
            if isinstance(a, ast.Compare) and len(a.ops) == 1 and isinstance(a.left, ast.Name) and isinstance(a.comparators[0], ast.Constant) and a.comparators[0].value is None:
                if (isinstance(a.ops[0], ast.IsNot) and pol) or (isinstance(a.ops[0], ast.Is) and not pol):
                    out.add(a.left.id)
        return out

    def value_nonnull(v: ast.AST, n, known: Set[str]) -> bool:
        if isinstance(v, ast.Name):
            return v.id in known
        if isinstance(v, (ast.List, ast.Tuple, ast.Dict, ast.Set, ast.ListComp, ast.SetComp, ast.DictComp, ast.GeneratorExp, ast.JoinedStr, ast.Lambda)):
            return True
        if isinstance(v, ast.Constant):
            return v.value is not None
        if isinstance(v, ast.Call):
            try:
                t = strip_sites(fa.term_of(v, n))
            except AnalysisError:
                return False
            if t[0] == "app" and t[1][0] == "global":
                from .model import ClassInfo

                try:
                    return isinstance(fa.model.lookup_target(t[1][1]), ClassInfo)
                except Exception:
                    return False
            return t[0] == "new"
        return False

    names_all = set()
    for n in cfg.nodes:
        if n.ast is not None:
            names_all |= assigned_names(n.stmt if n.kind in ("stmt", "for", "with", "return", "raisestmt") and n.stmt is not None else n.ast)
        for _s, fs in n.succ:
            names_all |= edge_gen(fs)
    IN = {n: set(names_all) for n in cfg.nodes}
    OUT = {n: set(names_all) for n in cfg.nodes}
    IN[cfg.entry] = set()
    OUT[cfg.entry] = set()
    changed = True
    while changed:
        changed = False
        for n in cfg.nodes:
            if n is cfg.entry:
                continue
            acc = None
            for p_, fs in n.pred:
                s_ = OUT[p_] | edge_gen(fs)
                acc = s_ if acc is None else (acc & s_)
            new_in = acc or set()
            if new_in != IN[n]:
                IN[n] = new_in
                changed = True
            out = set(new_in)
            if n.ast is not None:
                src = n.stmt if n.kind in ("stmt", "for", "with", "return", "raisestmt") and n.stmt is not None else n.ast
                ks = assigned_names(src)
                out -= ks
                if n.kind == "stmt" and isinstance(src, ast.Assign) and len(src.targets) == 1:
                    tg = src.targets[0]
                    if isinstance(tg, ast.Name) and value_nonnull(src.value, n, new_in):
                        out.add(tg.id)
                    elif isinstance(tg, ast.Tuple) and isinstance(src.value, ast.Tuple) and len(tg.elts) == len(src.value.elts):
                        for a_, b_ in zip(tg.elts, src.value.elts):
                            if isinstance(a_, ast.Name) and value_nonnull(b_, n, new_in):
                                out.add(a_.id)
            if out != OUT[n]:
                OUT[n] = out
                changed = True
    return IN


def term_known_empty(fa: FuncAnalysis, atoms, term: Term) -> Optional[bool]:
    """known_empty for any expression whose value is `term` (self.seen, finder.seen): True = empty, False = not empty"""
    for a, pol in atoms:
        le = len_eq(a)
        subj = le[0] if le is not None else a
        try:
            if not fa.cfg.has_node(subj) or strip_sites(fa.term_of(subj)) != term:
                continue
        except AnalysisError:
            continue
        if le is None:
            if isinstance(a, (ast.Name, ast.Attribute)):
                return not pol
            continue
        _x, op, k = le
        if (op == "Eq" and k == 0) or (op == "LtE" and k == 0) or (op == "Lt" and k == 1):
            return pol
        if (op == "NotEq" and k == 0) or (op == "Gt" and k == 0) or (op == "GtE" and k == 1):
            return not pol
    return None


def new_call_parts(t: Term) -> Optional[Dict[str, Term]]:
    """fields of an ast.Call construction term."""
    if t[0] == "new" and t[1] == "Call":
        return dict(t[2])
    return None


def name_call(t: Term) -> Optional[Tuple[str, List[Term], Term]]:
    """ast.Call(ast.Name(<const str>), [args..], keywords) -> (name, args, keywords_term)"""
    d = new_call_parts(t)
    if d is None:
        return None
    f = d.get("func")
    if not f or f[0] != "new" or f[1] != "Name":
        return None
    fid = dict(f[2]).get("id")
    if not fid or fid[0] != "const" or not isinstance(fid[1], str):
        return None
    a = d.get("args")
    if a is None or a[0] != "list":
        return None
    return fid[1], list(a[1]), d.get("keywords", ("list", ()))


def name_call_name(t: Term) -> Optional[str]:
    """ast.Call(ast.Name(<const str>), <any args>, ..) -> name"""
    d = new_call_parts(t)
    if d is None:
        return None
    f = d.get("func")
    if not f or f[0] != "new" or f[1] != "Name":
        return None
    return "?"


def unphi(t: Term) -> List[Term]:
    return list(t[1]) if t[0] == "phi" else [t]


def is_visited(t: Term, raw: Term) -> bool:
    """t is raw wrapped in at least one visit/gvisit."""
    return t[0] in ("visit", "gvisit") and strip_visits(t) == strip_visits(raw)


def walk_terms(t: Any) -> Iterator[Term]:
    for s in subterms(t):
        if isinstance(s, tuple) and s and isinstance(s[0], str):
            yield s


def attrs_in_call_closure(model: Model, fi: FuncInfo, wanted: Sequence[str], depth: int = 2) -> Set[str]:
    """attribute names from `wanted` read in fi or in package functions / methods it calls (to `depth`)."""
    out: Set[str] = set()
    seen: Set[str] = set()

    def go(f: FuncInfo, d: int):
        if f.qual in seen:
            return
        seen.add(f.qual)
        for n in own_nodes(f):
            if isinstance(n, ast.Attribute) and n.attr in wanted:
                out.add(n.attr)
        if d <= 0:
            return
        for c in calls_in(f):
            g = None
            if isinstance(c.func, ast.Name):
                tgt = model.lookup_target(model.resolve_dotted(f.module, f, c.func.id))
                g = tgt if isinstance(tgt, FuncInfo) else None
            elif isinstance(c.func, ast.Attribute) and isinstance(c.func.value, ast.Name) and f.cls is not None and f.pos_params and c.func.value.id == f.pos_params[0]:
                g = model.find_method(f.cls, c.func.attr)
            if g is not None:
                go(g, d - 1)

    go(fi, depth)
    return out


CACHE_DECORATORS = {"lru_cache", "cache", "functools.lru_cache", "functools.cache", "cached_property", "functools.cached_property"}


def memoised_functions(model: Model) -> List[Tuple[FuncInfo, str]]:
    out = []
    for fi in model.funcs.values():
        for d in fi.decorators:
            if d in CACHE_DECORATORS:
                out.append((fi, d))
    return out


def returns_ast(ctx: TermCtx, fi: FuncInfo) -> bool:
    """the function may return an ast node (constructor, parse result, or the result of a package function that does)."""
    try:
        rt = ctx.analysis(fi).return_term()
    except AnalysisError:
        return False
    if rt is None:
        return False

    def is_ast(t) -> bool:
        for x in subterms(t):
            if isinstance(x, tuple) and x:
                if x[0] == "new":
                    return True
                if x[0] == "app" and isinstance(x[1], tuple) and x[1][:1] == ("global",) and x[1][1] in ("ast.parse", "copy.deepcopy", "copy.copy"):
                    return True
                if x[0] in ("visit", "gvisit", "tvisit"):
                    return True
        return False

    return is_ast(rt)


# ---------------------------------------------------------------------------------- role-based discovery
def view(model: Model, fi: Optional[FuncInfo], keep=(), hoist_tests: bool = False, comp_loops: bool = False) -> Optional[FuncInfo]:
    """the normalised view of a function (sa/normalise.py): private helpers it returns through / calls as procedures
    inlined, literal dispatch tables read as if-chains. Reports still name the real function."""
    if fi is None:
        return None
    from .normalise import unrolled

    return unrolled(model, fi, frozenset(keep), hoist_tests, comp_loops)


def private_callees(model: Model, fi: FuncInfo) -> List[FuncInfo]:
    """package functions / methods called from fi that are private helpers: nested in fi, underscore-named
    functions of the same module, or underscore-named methods of the same class."""
    out: List[FuncInfo] = []
    for c in calls_in(fi):
        g = None
        f = c.func
        if isinstance(f, ast.Name):
            tgt = model.lookup_target(model.resolve_dotted(fi.module, fi, f.id))
            g = tgt if isinstance(tgt, FuncInfo) else None
        elif isinstance(f, ast.Attribute) and isinstance(f.value, ast.Name) and fi.cls is not None and fi.pos_params and f.value.id == fi.pos_params[0]:
            g = model.find_method(fi.cls, f.attr)
        if g is None or g is fi or g in out:
            continue
        nested = g.parent_func is fi
        in_private_module = g.module.name.rsplit(".", 1)[-1].startswith("_") and not g.module.name.rsplit(".", 1)[-1].startswith("__")
        private_fn = (g.module is fi.module and g.name.startswith("_") and not g.name.startswith("__")) or (g.cls is None and g.is_private and in_private_module)
        # a method of a class that itself lives inside a function cannot be called from outside: private in effect
        # (the visitor protocol's own entry points are not helpers)
        inner_method = g.cls is not None and g.cls is fi.cls and g.parent_func is not None and not g.name.startswith(("visit_", "call_", "__")) and g.name not in ("visit", "generic_visit")
        if nested or private_fn or inner_method:
            out.append(g)
    return out


def unit(model: Model, fi: FuncInfo, depth: int = 3) -> List[FuncInfo]:
    """fi together with the private helpers it (transitively) calls - the granularity at which "this
    function does X" is judged, so that extracting a helper does not change a verdict."""
    seen: List[FuncInfo] = [fi]
    frontier = [fi]
    for _ in range(depth):
        nxt = []
        for f in frontier:
            for g in private_callees(model, f):
                if g not in seen:
                    seen.append(g)
                    nxt.append(g)
        frontier = nxt
    return seen


def unit_nodes(model: Model, fi: FuncInfo, depth: int = 3):
    for f in unit(model, fi, depth):
        for n in own_nodes(f):
            yield f, n


def used_visitor(model: Model, ctx: TermCtx, fi: FuncInfo, want_transformer: Optional[bool] = None) -> "ClassInfo":
    """The visitor / transformer class whose instance fi (or its private helpers) applies with .visit(..):
    found through the provenance term of the receiver, so it does not matter whether the class is nested in fi,
    lives at module level, or how it is called."""
    from .model import ClassInfo

    found: List[ClassInfo] = []
    for f in unit(model, fi):
        fa = ctx.analysis(f)
        for c in calls_in(f):
            if isinstance(c.func, ast.Attribute) and c.func.attr == "visit" and c.args and fa.cfg.has_node(c):
                t = strip_sites(fa.term_of(c))
                if t[0] == "tvisit":
                    ci = model.classes.get(t[1])
                    if ci is not None and ci not in found:
                        found.append(ci)
                elif isinstance(c.func.value, ast.Name) and c.func.value.id not in fa.locals and c.func.value.id not in f.params:
                    # a module-level instance (`_worker = Cls()` at the top of the module)
                    val = f.module.assigns.get(c.func.value.id)
                    if isinstance(val, ast.Call) and isinstance(val.func, (ast.Name, ast.Attribute)):
                        ci = model.lookup_target(model.resolve_dotted(f.module, None, ast.unparse(val.func)))
                        if isinstance(ci, ClassInfo) and model.is_visitor(ci) and ci not in found:
                            found.append(ci)
    # nested classes defined inside the unit are candidates too (instantiated through a local name)
    if not found:
        for f in unit(model, fi):
            for ci in model.classes.values():
                if ci.parent_func is f and model.is_visitor(ci) and ci not in found:
                    found.append(ci)
    if want_transformer is not None:
        found = [c for c in found if model.is_transformer(c) == want_transformer] or found
    if len(found) != 1:
        raise AnalysisError(f"cannot identify the visitor class applied by {fi.name} ({[c.name for c in found]})")
    return found[0]


class Event:
    __slots__ = ("name", "args", "kwargs", "site", "must", "via", "call", "owner", "recv", "binding")

    def __init__(self, name, args, kwargs, site, must, via, call, owner, recv=None, binding=None):
        self.name, self.args, self.kwargs, self.site, self.must, self.via, self.call, self.owner, self.recv = name, args, kwargs, site, must, via, call, owner, recv
        self.binding = binding or {}

    def facts(self, ctx) -> "Facts":
        """facts at the call, with subjects expressed in the vocabulary of the function the events were collected for"""
        return Facts(ctx.analysis(self.owner), self.call, binding=self.binding)


def call_events(ctx: TermCtx, fi: FuncInfo, pred: Callable[[str], bool], depth: int = 2) -> List[Event]:
    """Calls whose callee's simple name satisfies pred, made by fi or - with parameters substituted by the
    actual arguments - by the private helpers it calls.  `site` is the CFG node *in fi* at which the event
    happens (the call itself, or the call of the helper that contains it); `must` says the event lies on every
    normal path through the helper(s) between their entry and exit.  A helper that calls one of its own
    parameters (`visitor(node)`) yields the event of the bound method it was handed (`self.generic_visit`)."""
    return [e for e in _call_events(ctx, fi, pred, depth, ()) if not e.name.startswith("<param>")]


def _call_events(ctx: TermCtx, fi: FuncInfo, pred: Callable[[str], bool], depth: int, _stack) -> List[Event]:
    from .terms import subst

    model = ctx.model
    fa = ctx.analysis(fi)
    out: List[Event] = []
    helpers = {g.qual: g for g in private_callees(model, fi)}
    for c in calls_in(fi):
        if not fa.cfg.has_node(c):
            continue
        f = c.func
        nm = f.id if isinstance(f, ast.Name) else (f.attr if isinstance(f, ast.Attribute) else None)
        node = fa.cfg.node_of(c)
        if nm is not None and pred(nm):
            from .terms import splice_literals as _splice

            args = tuple(_splice(strip_sites(fa.term_of(a))) for a in c.args)
            kws = tuple((k.arg, _splice(strip_sites(fa.term_of(k.value)))) for k in c.keywords)
            recv = None
            if isinstance(f, ast.Attribute):
                try:
                    recv = strip_sites(fa.term_of(f.value))
                except AnalysisError:
                    recv = None
            out.append(Event(nm, args, kws, node, True, (), c, fi, recv))
        elif isinstance(f, ast.Name) and f.id in fi.params and _stack:
            args = tuple(strip_sites(fa.term_of(a)) for a in c.args)
            kws = tuple((k.arg, strip_sites(fa.term_of(k.value))) for k in c.keywords)
            out.append(Event("<param>" + f.id, args, kws, node, True, (), c, fi, None))
        # descend into private helpers
        g = None
        if isinstance(f, ast.Name):
            tgt = model.lookup_target(model.resolve_dotted(fi.module, fi, f.id))
            g = tgt if isinstance(tgt, FuncInfo) else None
            skip = 0
        elif isinstance(f, ast.Attribute) and isinstance(f.value, ast.Name) and fi.cls is not None and fi.pos_params and f.value.id == fi.pos_params[0]:
            g = model.find_method(fi.cls, f.attr)
            skip = 0 if (g is not None and "staticmethod" in g.decorators) else 1
        self_term = ("param", fi.pos_params[0]) if fi.pos_params else None
        if g is None and isinstance(f, ast.Attribute):
            # a method of a private record object built in this function: remapped.as_call("Select")
            try:
                rt_ = strip_sites(fa.term_of(f.value))
            except AnalysisError:
                rt_ = None
            if rt_ is not None and rt_[0] == "new" and isinstance(rt_[1], str) and ":" in rt_[1]:
                rc_ = model.classes.get(rt_[1])
                g = model.find_method(rc_, f.attr) if rc_ is not None else None
                if g is not None and not g.is_property and depth > 0 and g.qual not in _stack:
                    skip = 0 if "staticmethod" in g.decorators else 1
                    self_term = rt_
                    helpers = dict(helpers)
                    helpers[g.qual] = g
                else:
                    g = None
        if g is None or g.qual not in helpers or depth <= 0 or g.qual in _stack:
            continue
        ga = ctx.analysis(g)
        binding = {}
        params = g.pos_params[skip:]
        if skip:
            binding[("param", g.pos_params[0])] = self_term
        for p_, a in zip(params, c.args):
            binding[("param", p_)] = strip_sites(fa.term_of(a))
        va = getattr(g.node.args, "vararg", None)
        if va is not None and not any(isinstance(a, ast.Starred) for a in c.args):
            binding[("param", va.arg)] = ("tuple", tuple(strip_sites(fa.term_of(a)) for a in c.args[len(params):]))
        for k in c.keywords:
            if k.arg:
                binding[("param", k.arg)] = strip_sites(fa.term_of(k.value))
        from .terms import splice_literals

        for ev in _call_events(ctx, g, pred, depth - 1, _stack + (fi.qual,)):
            must = ev.must and ga.cfg.postdominates(ev.site, ga.cfg.entry)
            if ev.name.startswith("<param>"):
                b = binding.get(("param", ev.name[len("<param>"):]))
                if b is None or b[0] != "attr" or not pred(b[2]):
                    continue
                ev = Event(b[2], ev.args, ev.kwargs, ev.site, ev.must, ev.via, ev.call, ev.owner, b[1], ev.binding)
                out.append(Event(ev.name, tuple(splice_literals(subst(a, binding)) for a in ev.args), tuple((k, splice_literals(subst(v, binding))) for k, v in ev.kwargs), node, must, (g.name,) + ev.via, ev.call, ev.owner, ev.recv, {**binding, **{k: subst(v, binding) for k, v in ev.binding.items()}} if ev.binding else dict(binding)))
                continue
            a2 = tuple(subst(a, binding) for a in ev.args)
            k2 = tuple((k, subst(v, binding)) for k, v in ev.kwargs)
            if any(isinstance(v_, tuple) and v_ and v_[0] == "new" for v_ in binding.values()):
                from .terms import _reduce_fields as _rf

                fa.model_property_alias("")
                al_ = type(fa)._prop_alias_cache.get(id(model), {})
                a2 = tuple(_rf(a, al_) for a in a2)
                k2 = tuple((k, _rf(v, al_)) for k, v in k2)
            out.append(Event(ev.name, tuple(splice_literals(a) for a in a2), tuple((k, splice_literals(v)) for k, v in k2), node, must, (g.name,) + ev.via, ev.call, ev.owner, subst(ev.recv, binding) if ev.recv is not None else None, {**binding, **{k: subst(v, binding) for k, v in ev.binding.items()}} if ev.binding else dict(binding)))
    return out


def event_before(ctx: TermCtx, fi: FuncInfo, a: Event, b: Event) -> bool:
    """event a happens on every path that reaches event b (both as seen from fi)."""
    fa = ctx.analysis(fi)
    if a.site is not b.site:
        return a.must and fa.cfg.dominates(a.site, b.site)
    if a.owner is b.owner and a.via == b.via:
        ga = ctx.analysis(a.owner)
        return ga.cfg.has_node(a.call) and ga.cfg.has_node(b.call) and ga.cfg.dominates(ga.cfg.node_of(a.call), ga.cfg.node_of(b.call))
    return False


def event_after(ctx: TermCtx, fi: FuncInfo, b: Event, a: Event) -> bool:
    """event b happens on every normal path that leaves event a (both as seen from fi)."""
    fa = ctx.analysis(fi)
    if a.site is not b.site:
        return b.must and fa.cfg.postdominates(b.site, a.site)
    if a.owner is b.owner and a.via == b.via:
        ga = ctx.analysis(a.owner)
        return ga.cfg.has_node(a.call) and ga.cfg.has_node(b.call) and ga.cfg.postdominates(ga.cfg.node_of(b.call), ga.cfg.node_of(a.call))
    return False


def tuple_component(t, i: int, n: Optional[int] = None):
    """i-th component of a term that is a tuple on every alternative (`return a, b` on several paths, or one
    return of locals that are themselves alternatives); None if some alternative is not a tuple (of length n)."""
    from .terms import phi, unphi_terms

    alts = unphi_terms(t)
    comps = []
    for a in alts:
        if a[0] != "tuple" or (n is not None and len(a[1]) != n) or len(a[1]) <= i:
            return None
        comps.append(a[1][i])
    if not comps:
        return None
    return comps[0] if len(set(comps)) == 1 else phi(comps)


def site_owner(model: Model, ctx: TermCtx, fi: FuncInfo, callee_name: str):
    """The function of unit(fi) that contains the call(s) of `callee_name`, with a map from fi's terms for the
    actual arguments to that function's parameters ({} when it is fi itself).  Extracting the code around a call
    site into a private helper therefore does not move the obligation out of sight."""

    def nm(c):
        return c.func.id if isinstance(c.func, ast.Name) else (c.func.attr if isinstance(c.func, ast.Attribute) else None)

    owners = [g for g in unit(model, fi) if any(nm(c) == callee_name for c in calls_in(g))]
    if not owners:
        return fi, {}
    if len(owners) != 1:
        raise AnalysisError(f"calls of {callee_name} are spread over {[g.name for g in owners]}")
    g = owners[0]
    if g is fi:
        return g, {}
    def hop(caller: FuncInfo, callee: FuncInfo):
        """{term in caller: parameter of callee} for the one call of callee in caller"""
        ss = [(c_, call, skip) for c_, call, skip in call_sites_of(model, callee) if c_ is caller]
        if len(ss) != 1:
            return None
        _c, call, skip = ss[0]
        fa = ctx.analysis(caller)
        inv_ = {}
        for p_, a in zip(callee.pos_params[skip:], call.args):
            inv_[strip_sites(fa.term_of(a))] = ("param", p_)
        for k in call.keywords:
            if k.arg:
                inv_[strip_sites(fa.term_of(k.value))] = ("param", k.arg)
        if skip and caller.pos_params:
            inv_[("param", caller.pos_params[0])] = ("param", callee.pos_params[0])
        return inv_

    # the chain of private helpers from fi down to g (each called exactly once by the one above it)
    chain = [g]
    for _ in range(4):
        top = chain[0]
        if top is fi:
            break
        callers = {c_.qual: c_ for c_, _call, _sk in call_sites_of(model, top) if any(c_ is u for u in unit(model, fi))}
        if len(callers) != 1:
            raise AnalysisError(f"{top.name} is not called exactly once from {fi.name} or one of its private helpers")
        chain.insert(0, next(iter(callers.values())))
    if chain[0] is not fi:
        raise AnalysisError(f"{g.name} is not reached from {fi.name} through a chain of single calls")
    from .terms import subst

    inv = None
    for a_, b_ in zip(chain, chain[1:]):
        step = hop(a_, b_)
        if step is None:
            raise AnalysisError(f"{b_.name} is not called exactly once, directly, from {a_.name}")
        if inv is None:
            inv = step
        else:
            back = {v: k for k, v in inv.items()}  # parameter of a_ -> term in fi
            inv = {subst(t_, back): p_ for t_, p_ in step.items()}
    return g, inv or {}


def init_attr(ctx: TermCtx, model: Model, cls, pred: Callable[[Term], bool], what: str) -> str:
    """name of the one attribute that cls.__init__ (through the MRO) initialises with a value satisfying pred - the
    way rules find "the stack", "the table" of a class without knowing what it is called"""
    init = model.find_method(cls, "__init__")
    if init is None:
        raise AnalysisError(f"{cls.name} has no __init__: cannot identify {what}")
    fa = ctx.analysis(init)
    names = []
    for n in own_nodes(init):
        tg = None
        if isinstance(n, ast.Assign) and len(n.targets) == 1:
            tg = n.targets[0]
        elif isinstance(n, ast.AnnAssign) and n.value is not None:
            tg = n.target
        if isinstance(tg, ast.Attribute) and isinstance(tg.value, ast.Name) and tg.value.id == init.pos_params[0] and pred(strip_sites(fa.term_of(n.value))):
            names.append(tg.attr)
    if len(set(names)) != 1:
        raise AnalysisError(f"cannot identify {what}: candidates {sorted(set(names))}")
    return names[0]


def reaches(cfg, first, second) -> bool:
    """some path leads from CFG node `first` to `second`"""
    seen = set()
    st = [x for x, _ in first.succ]
    while st:
        x = st.pop()
        if x is second:
            return True
        if id(x) in seen:
            continue
        seen.add(id(x))
        st.extend(y for y, _ in x.succ)
    return False


def carried_param_terms(model: Model, ctx: TermCtx, outer: FuncInfo, cls, method: FuncInfo, pname: str) -> List[Term]:
    """The terms that, inside `method` of the visitor class `cls` which `outer` instantiates and applies, denote
    outer's parameter `pname`: the closure variable (class nested in outer), or an attribute that __init__ fills,
    unchanged and only there, from a constructor argument to which outer passes that parameter."""
    out: List[Term] = [("free", pname)]
    init = cls.methods.get("__init__")
    if init is not None and method.pos_params and init.pos_params:
        # self.x = <the closure variable>, stored once (in __init__) and never written again
        fi_c = ctx.analysis(init)
        for n in own_nodes(init):
            if isinstance(n, ast.Assign) and len(n.targets) == 1 and isinstance(n.targets[0], ast.Attribute) and isinstance(n.targets[0].value, ast.Name) and n.targets[0].value.id == init.pos_params[0] and strip_sites(fi_c.term_of(n.value)) == ("free", pname):
                attr = n.targets[0].attr
                others = [x for f_ in cls.methods.values() for x in own_nodes(f_) if isinstance(x, ast.Attribute) and x.attr == attr and isinstance(x.ctx, (ast.Store, ast.Del)) and x is not n.targets[0]]
                if not others:
                    out.append(("attr", ("param", method.pos_params[0]), attr))
    if init is None or len(init.pos_params) < 2 or not method.pos_params:
        return out
    fi_a = ctx.analysis(init)
    ofa = ctx.analysis(outer)
    for n in own_nodes(init):
        if isinstance(n, ast.Assign) and len(n.targets) == 1 and isinstance(n.targets[0], ast.Attribute) and isinstance(n.targets[0].value, ast.Name) and n.targets[0].value.id == init.pos_params[0]:
            v = strip_sites(fi_a.term_of(n.value))
            if v[0] != "param" or v[1] not in init.pos_params[1:]:
                continue
            k = init.pos_params.index(v[1]) - 1
            attr = n.targets[0].attr
            others = [x for f_ in cls.methods.values() for x in own_nodes(f_) if isinstance(x, ast.Attribute) and x.attr == attr and isinstance(x.ctx, (ast.Store, ast.Del)) and x is not n.targets[0]]
            if others:
                continue
            for c in calls_in(outer):
                if isinstance(c.func, ast.Name) and c.func.id == cls.name:
                    actual = c.args[k] if k < len(c.args) else next((kw.value for kw in c.keywords if kw.arg == v[1]), None)
                    if actual is not None and strip_sites(ofa.term_of(actual)) == ("param", pname):
                        out.append(("attr", ("param", method.pos_params[0]), attr))
    return out


def unit_loops(ctx: TermCtx, model: Model, fi: FuncInfo):
    """[(owner, for-loop, term of what it iterates over, in fi's vocabulary)] for fi and the private helpers it calls
    directly (a helper's parameters are replaced by the arguments of its one call in fi)."""
    from .terms import subst

    fa = ctx.analysis(fi)
    out = []
    for g in unit(model, fi, depth=1):
        ga = ctx.analysis(g)
        binding = None
        if g is not fi:
            sites = [(c_, call, skip) for c_, call, skip in call_sites_of(model, g) if c_ is fi]
            if len(sites) != 1:
                continue
            _c, call, skip = sites[0]
            binding = {}
            for p_, a in zip(g.pos_params[skip:], call.args):
                binding[("param", p_)] = strip_sites(fa.term_of(a))
            for k in call.keywords:
                if k.arg:
                    binding[("param", k.arg)] = strip_sites(fa.term_of(k.value))
            if skip and fi.pos_params:
                binding[("param", g.pos_params[0])] = ("param", fi.pos_params[0])
        for n in own_nodes(g):
            if isinstance(n, ast.For) and ga.cfg.has_node(n):
                it = strip_sites(ga.term_of(n.iter, ga.cfg.node_of(n)))
                out.append((g, n, subst(it, binding) if binding else it))
    return out


def final_delegate(model: Model, fi: FuncInfo, depth: int = 3) -> FuncInfo:
    """the function that produces fi's result: fi itself, or - when every return of fi is `return helper(..)` /
    `return self.helper(..)` of one private helper of its unit - that helper (followed transitively)."""
    for _ in range(depth):
        rets = [n for n in own_nodes(fi) if isinstance(n, ast.Return)]
        if not rets:
            return fi
        targets = set()
        for r in rets:
            c = r.value
            if not isinstance(c, ast.Call):
                return fi
            g = None
            f = c.func
            if isinstance(f, ast.Name):
                tgt = model.lookup_target(model.resolve_dotted(fi.module, fi, f.id))
                g = tgt if isinstance(tgt, FuncInfo) else None
            elif isinstance(f, ast.Attribute) and isinstance(f.value, ast.Name) and fi.cls is not None and fi.pos_params and f.value.id == fi.pos_params[0]:
                g = model.find_method(fi.cls, f.attr)
            if g is None or g not in private_callees(model, fi):
                return fi
            targets.add(g.qual)
            last = g
        if len(targets) != 1:
            return fi
        fi = last
    return fi


def generator_names(model: Model) -> Set[str]:
    """simple names of the package's generator functions (a `yield` of their own; context managers apart)"""
    got = getattr(model, "_generator_names", None)
    if got is None:
        got = set()
        for f in model.funcs.values():
            if isinstance(f.node, ast.Lambda) or any(d.endswith("contextmanager") for d in f.decorators):
                continue
            if any(isinstance(n, (ast.Yield, ast.YieldFrom)) for n in own_nodes(f)):
                got.add(f.name)
        model._generator_names = got
    return got


def mentions_generator(model: Model, t) -> Optional[str]:
    """name of a package generator function that term t calls (the term engine does not read generators: a rule that
    would have to judge such a term refuses instead)"""
    names = generator_names(model)
    if not names:
        return None
    from .terms import walk_all

    for q in walk_all(t):
        if isinstance(q, tuple) and q and q[0] == "app" and isinstance(q[1], tuple):
            c = q[1]
            if c[0] == "global" and c[1].split(".")[-1].split(":")[-1] in names:
                return c[1].split(".")[-1]
            if c[0] == "attr" and c[2] in names:
                return c[2]
    return None
