"""E4 - visitor analyses.

E4a  unvisited-subtree taint: in a transformer dispatch entry (visit_X / call_X) the node parameter and
     everything reached from it is *raw*; Visit(t)/GVisit(t) and whatever is built underneath a Visit is
     *clean*.  A raw AST-valued term embedded in the returned term outside any Visit is an unvisited
     subtree: the rewrite is not applied "at any depth" there.
E4b  binder discipline of name-substituting transformers (shadow frames for every binding construct).
"""
from __future__ import annotations

import ast
from typing import Dict, Iterable, List, Optional, Set, Tuple

from .lib import calls_in, own_nodes, stmt_of
from .model import AnalysisError, ClassInfo, FuncInfo, Model
from .terms import FuncAnalysis, Term, TermCtx, root_of, show, strip_sites

# attributes of ast nodes that hold python scalars, not sub-trees
SCALAR_ATTRS = {"attr", "id", "arg", "name", "lineno", "col_offset", "end_lineno", "end_col_offset", "ctx", "op", "kind", "is_async", "conversion", "level", "module", "asname", "type_comment"}
PREDICATES = {"is_call_of", "lambda_is_identity", "lambda_is_true", "lambda_test", "isinstance", "len", "type", "hasattr", "callable", "is_dataclass", "_is_method_call_on_first", "_is_simple_lambda_call"}


def _is_scalar_path(t: Term) -> bool:
    """t = raw.x.y.attr  ends in a scalar-valued field (or .value of a Constant used as python value)."""
    return t[0] == "attr" and t[2] in SCALAR_ATTRS


def leaks(t: Term, raw_roots: Set[Term], value_is_scalar: Set[Term] = frozenset()) -> List[Term]:
    """raw AST-valued subterms of t that are not underneath a visit wrapper."""
    out: List[Term] = []

    def go(x, under: bool):
        if not isinstance(x, tuple) or not x or not isinstance(x[0], str):
            if isinstance(x, tuple):
                for y in x:
                    go(y, under)
            return
        k = x[0]
        if k in ("visit", "gvisit"):
            go(x[1], True)
            return
        if k == "tvisit":
            go(x[2], True)
            return
        if k == "ifexp":
            go(x[2], under)
            go(x[3], under)
            return
        if k in ("param", "attr", "index", "slice", "subscript", "elem"):
            r = root_of(x)
            if r in raw_roots:
                if under or _is_scalar_path(x):
                    return
                if x[0] == "attr" and x[2] == "value" and x[1] in value_is_scalar:
                    return
                if x not in out:
                    out.append(x)
                return
            if k == "subscript":
                go(x[1], under)
                # the index is a python value, not an embedded subtree
                return
            if k != "param":
                go(x[1], under)
            return
        if k == "app":
            callee = x[1]
            nm = callee[1].split(".")[-1] if callee[0] == "global" else (callee[2] if callee[0] == "attr" else "")
            if nm in PREDICATES:
                return
            if _is_call_dispatch(callee):
                # FuncADLNodeTransformer.visit_Call handing the node to its call_<name> entry
                return
            if callee[0] == "attr":
                go(callee[1], under)
            for a in x[2]:
                go(a, under)
            for _k, v in x[3]:
                go(v, under)
            return
        if k == "new":
            for _f, v in x[2]:
                go(v, under)
            return
        if k == "upd":
            go(x[1], under)
            for _f, v in x[2]:
                go(v, under)
            return
        if k in ("const", "global", "free", "top", "rec", "bound"):
            return
        if k == "op":
            # comparisons / arithmetic on python values: not tree embedding
            return
        for y in x[1:]:
            go(y, under)

    go(t, False)
    return out


def _is_call_dispatch(callee: Term) -> bool:
    for alt in (callee[1] if callee[0] == "phi" else [callee]):
        if alt[0] == "attr" and alt[1] == ("param", "self") and alt[2][0:1] == "f":
            pass
        if alt[0] == "subscript" or alt[0] == "attr":
            # getattr(self, f"call_{..}") is rendered by the term engine as an attr with non-constant name -> app(getattr)
            continue
        if alt[0] == "app" and alt[1] == ("global", "builtins.getattr") and len(alt[2]) >= 2 and alt[2][0][0] == "param" and alt[2][1][0] == "fstr":
            parts = alt[2][1][1]
            if parts and parts[0][0] == "const" and str(parts[0][1]).startswith("call_"):
                return True
    return False


def dispatch_aliases(model: Model, ci: ClassInfo) -> dict:
    """class-level `visit_K = <method of the class>` assignments: K is dispatched to that method as well"""
    out = {}
    meths = model.all_methods(ci)
    for c in reversed(model.mro(ci)):
        if not isinstance(c, ClassInfo):
            continue
        for n, v in c.class_assigns.items():
            if ((n.startswith("visit_") or n.startswith("call_")) and n.count("_") == 1) and n not in c.methods and isinstance(v, ast.Name) and v.id in meths:
                out[n] = meths[v.id]
    return out


def dispatch_entries(model: Model, ci: ClassInfo) -> List[FuncInfo]:
    """the methods the visitor protocol dispatches to; an entry reached under an alias name (`visit_K = helper`) is
    handed out as a copy of the helper's record that carries the dispatch name in `entry_name`"""
    import dataclasses

    res = [f for n, f in sorted(model.all_methods(ci).items()) if (n.startswith("visit_") and n.count("_") == 1) or (n.startswith("call_") and n.count("_") == 1)]
    for n, f in sorted(dispatch_aliases(model, ci).items()):
        g = dataclasses.replace(f)
        object.__setattr__(g, "entry_name", n)
        res.append(g)
    return res


def unvisited_in_entry(ctx: TermCtx, fi: FuncInfo) -> List[Tuple[ast.Return, Term, Term]]:
    """(return stmt, leaked raw subterm, whole return term) for a dispatch entry."""
    from .normalise import unrolled

    entry = getattr(fi, "entry_name", fi.name)
    fi = unrolled(ctx.model, fi)
    fa = ctx.analysis(fi)
    raw0 = {("param", p) for p in fi.pos_params[1:]}
    res = []
    if entry in ("visit_Name", "visit_Constant"):
        return res  # leaf node kinds: nothing below them to visit
    # in-place cleaning: self.generic_visit(<param>) executed on every path before the return
    cleaners = []
    for c in calls_in(fi):
        if isinstance(c.func, ast.Attribute) and c.func.attr == "generic_visit" and c.args and fa.cfg.has_node(c):
            at = strip_sites(fa.term_of(c.args[-1]))
            if at in raw0:
                cleaners.append((fa.cfg.node_of(c), at))
    for s, n in fa.returns():
        if s.value is None:
            continue
        raw = {r for r in raw0 if not any(r == at and fa.cfg.dominates(cn, n) for cn, at in cleaners)}
        t = strip_sites(fa.term_of(s.value, n))
        from .terms import dynamic_dispatch

        dd = dynamic_dispatch(t)
        if dd is not None and any(leaks(a_, raw) for a_ in dd[2]):
            raise AnalysisError(f"{fi.name} calls a method chosen with getattr(self, <computed name>): whether its arguments are visited cannot be decided from the shape of the code")
        for lk in leaks(t, raw):
            res.append((s, lk, t))
    return res


# ---------------------------------------------------------------------------------- E4b
LAMBDA_ARG_KINDS = ("posonlyargs", "args", "kwonlyargs", "vararg", "kwarg")


def lambda_arg_kinds_used(fn: FuncInfo, node_param: str) -> Set[str]:
    """which of the five parameter kinds of `node.args` the method reads."""
    kinds: Set[str] = set()
    for n in own_nodes(fn):
        if isinstance(n, ast.Attribute) and n.attr in LAMBDA_ARG_KINDS:
            kinds.add(n.attr)
    return kinds


def substituters(model: Model, ctx: TermCtx) -> List[ClassInfo]:
    """transformer classes whose visit_Name can return something other than its argument."""
    out = []
    for ci in model.classes.values():
        if not model.is_transformer(ci):
            continue
        vn = model.find_method(ci, "visit_Name")
        if vn is None or vn.cls is None:
            continue
        fa = ctx.analysis(vn)
        rt = fa.return_term()
        if rt is None:
            continue
        rt = strip_sites(rt)
        nodep = ("param", vn.pos_params[1])
        if rt != nodep:
            out.append(ci)
    return out


LITERAL_KINDS = ("ast.Tuple", "ast.List", "ast.Dict")


def _delegate(model, cls, h):
    """follow `def h(self, a, b): return self.g(a, b)` (a handler that only forwards to a shared implementation)"""
    import ast as _ast

    for _ in range(3):
        body = [st for st in h.node.body if not (isinstance(st, _ast.Expr) and isinstance(st.value, _ast.Constant))]
        if len(body) != 1 or not isinstance(body[0], _ast.Return) or not isinstance(body[0].value, _ast.Call):
            return h
        c = body[0].value
        if c.keywords:
            return h
        own = h.pos_params[1:] if h.cls is not None else h.pos_params
        if [getattr(a, "id", None) for a in c.args] != own:
            return h
        if isinstance(c.func, _ast.Attribute) and isinstance(c.func.value, _ast.Name) and h.cls is not None and c.func.value.id == h.pos_params[0]:
            g = model.find_method(cls, c.func.attr)
            if g is None or len(g.pos_params) != len(h.pos_params):
                return h
        elif isinstance(c.func, _ast.Name):
            # .. or to a module-level function taking the same (value, selector)
            from .model import FuncInfo as _FI

            g = model.lookup_target(model.resolve_dotted(h.module, h, c.func.id))
            if not isinstance(g, _FI) or g.cls is not None or len(g.pos_params) != len(own):
                return h
        else:
            return h
        h = g
    return h


def projection_handlers(model, ctx, cls, vs):
    """{'ast.Tuple': (handler, call), ..}: the methods of cls that visit_Subscript hands (visited value, visited
    selector) to, keyed by the literal class the call is conditional on.  Recognises an if-chain of exact type
    tests and a module-level {ast class: method name} table consulted with type(<visited value>)."""
    import ast as _ast

    from .lib import Facts, calls_in
    from .terms import strip_sites

    fa = ctx.analysis(vs)
    nodep = ("param", vs.pos_params[1])
    V = ("visit", ("attr", nodep, "value"))
    out = {}
    tests = []  # (subject term, kind label, stmt) - the dispatch tests made through a table
    for c in calls_in(vs):
        if not fa.cfg.has_node(c) or len(c.args) != 2:
            continue
        f = c.func
        if isinstance(f, _ast.Attribute) and isinstance(f.value, _ast.Name) and f.value.id == vs.pos_params[0] and f.attr != "visit":
            h = model.find_method(cls, f.attr)
            if h is None or strip_sites(fa.term_of(c.args[0])) != V:
                continue
            fx = Facts(fa, c)
            for k in LITERAL_KINDS:
                # (a test made on the value as written selects the handler too: that it should have been made on the
                # visited value is C14.R2's finding, not a vanished handler)
                if fx.isinstance_of(V, {k}) or fx.isinstance_of(("attr", nodep, "value"), {k}):
                    out[k] = (_delegate(model, cls, h), c)
        elif isinstance(f, _ast.Call) and isinstance(f.func, _ast.Name) and f.func.id == "getattr" and len(f.args) == 2:
            if strip_sites(fa.term_of(f.args[0])) != ("param", vs.pos_params[0]) or strip_sites(fa.term_of(c.args[0])) != V:
                continue
            t = strip_sites(fa.term_of(f.args[1]))
            table = None
            # a local {ast class: "method name"} literal consulted with type(<visited value>)
            loc = None
            if t[0] == "app" and t[1][0] == "attr" and t[1][2] == "get" and t[1][1][0] == "dict" and len(t[2]) == 1:
                loc, key = t[1][1], t[2][0]
            elif t[0] == "subscript" and t[1][0] == "dict":
                loc, key = t[1], t[2]
            if loc is not None and key == ("app", ("global", "builtins.type"), (V,), ()):
                for k_t, v_t in loc[1]:
                    if isinstance(k_t, tuple) and k_t[0] == "global" and k_t[1] in LITERAL_KINDS and v_t[0] == "const" and isinstance(v_t[1], str):
                        h = model.find_method(cls, v_t[1])
                        if h is not None:
                            out[k_t[1]] = (_delegate(model, cls, h), c)
                            tests.append((V, k_t[1].split(".")[-1], c))
                continue
            if t[0] == "app" and t[1][0] == "global" and t[1][1].endswith(".get") and len(t[2]) == 1:
                table, key = t[1][1][: -len(".get")], t[2][0]
            elif t[0] == "subscript" and t[1][0] == "global":
                table, key = t[1][1], t[2]
            if table is None or key != ("app", ("global", "builtins.type"), (V,), ()):
                continue
            modname, _, var = table.rpartition(".")
            try:
                lit = model.module(modname).assigns.get(var)
            except Exception:
                lit = None
            if not isinstance(lit, _ast.Dict):
                continue
            for k_, v_ in zip(lit.keys, lit.values):
                kk = _ast.unparse(k_) if k_ is not None else None
                if kk in LITERAL_KINDS and isinstance(v_, _ast.Constant) and isinstance(v_.value, str):
                    h = model.find_method(cls, v_.value)
                    if h is not None:
                        out[kk] = (_delegate(model, cls, h), c)
                        tests.append((V, kk.split(".")[-1], c))
    return out, tests
