"""The nine operator-pair fusion laws of simplify_chained_calls as reference code, and their comparison
with the implementation's call_Select / call_SelectMany / call_Where (per branch, on provenance terms).

LINQ justification of each row (f = parent's lambda, g = the new lambda, seq = parent's source):
  Select(Select(seq,f),g)         = Select(seq, g.f)                      map fusion
  Select(SelectMany(seq,f),g)     = SelectMany(seq, x: Select(f(x), g))   map distributes over concat
  Select(other,g)                 = Select(other', g')                    congruence
  SelectMany(Select(seq,f),g)     = SelectMany(seq, g.f)                  bind after map
  SelectMany(SelectMany(seq,f),g) = SelectMany(seq, x: SelectMany(f(x),g)) monad associativity
  SelectMany(other,g)             = SelectMany(other', g')                congruence
  Where(Where(seq,f),g)           = Where(seq, x: f(x) and g(x))          filter fusion (f first)
  Where(Select(seq,f),g)          = Select(Where(seq, g.f), f)            filter before map
  Where(SelectMany(seq,f),g)      = SelectMany(seq, x: Where(f(x), g))    filter distributes over concat
  Where(other, const True)        = other';  Where(other,g) = Where(other', g')
In the three rows that move g under f's binder, f is first renamed with make_args_unique (fresh binder).
"""
from __future__ import annotations

import ast
from typing import Any, Dict, List, Tuple

from .lib import Facts
from .model import AnalysisError, FuncInfo, Model
from .spec import canon, drop_sites, missing_visits, spec_function
from .terms import TermCtx, show, strip_sites, strip_visits

OPAQUE = {"convolute", "make_args_unique", "arg_name", "lambda_is_identity", "lambda_is_true", "is_call_of"}

SPECS = {
    "call_Select": '''
def call_Select(self, node, args):
    parent = self.visit(args[0])
    g = args[1]
    if is_call_of(parent, "Select"):
        return make_Select(parent.args[0], self.visit(convolute(g, parent.args[1])))
    elif is_call_of(parent, "SelectMany"):
        f = make_args_unique(parent.args[1])
        return self.visit(function_call("SelectMany", [parent.args[0], lambda_body_replace(f, make_Select(lambda_body(f), g))]))
    else:
        return make_Select(parent, self.visit(g))
''',
    "call_SelectMany": '''
def call_SelectMany(self, node, args):
    parent = self.visit(args[0])
    g = args[1]
    if is_call_of(parent, "SelectMany"):
        f = make_args_unique(parent.args[1])
        return self.visit(function_call("SelectMany", [parent.args[0], lambda_build(f.args.args[0].arg, function_call("SelectMany", [f.body, g]))]))
    elif is_call_of(parent, "Select"):
        return function_call("SelectMany", [parent.args[0], self.visit(convolute(g, parent.args[1]))])
    else:
        return function_call("SelectMany", [parent, self.visit(g)])
''',
    "call_Where": '''
def call_Where(self, node, args):
    parent = self.visit(args[0])
    g = args[1]
    if is_call_of(parent, "Where"):
        arg = arg_name()
        return self.visit(function_call("Where", [parent.args[0], lambda_build(arg, ast.BoolOp(ast.And(), [lambda_call(arg, parent.args[1]), lambda_call(arg, g)]))]))
    elif is_call_of(parent, "Select"):
        f = parent.args[1]
        return self.visit(make_Select(function_call("Where", [parent.args[0], self.visit(convolute(g, f))]), f))
    elif is_call_of(parent, "SelectMany"):
        f = make_args_unique(parent.args[1])
        return self.visit(function_call("SelectMany", [parent.args[0], lambda_body_replace(f, function_call("Where", [lambda_body(f), g]))]))
    else:
        vg = self.visit(g)
        if lambda_is_true(vg):
            return parent
        else:
            return function_call("Where", [parent, vg])
''',
}


def _is_callee_name_classifier(model: Model, qual: str) -> bool:
    """a private function of one parameter n that hands back n.func.id when n is a call of a plain name and None otherwise:
    `f(x) == "Op"` then says exactly what is_call_of(x, "Op") says"""
    fi = model.lookup_target(qual)
    from .model import FuncInfo

    if not isinstance(fi, FuncInfo) or not fi.is_private or len(fi.pos_params) != 1:
        return False
    fa = TermCtx(model, max_depth=1).analysis(fi)
    p = ("param", fi.pos_params[0])
    ok_val = False
    for s_, n_ in fa.returns():
        t = strip_sites(fa.term_of(s_.value, n_)) if s_.value is not None else ("const", None)
        for alt in (t[1] if t[0] == "phi" else [t]):
            if alt == ("const", None):
                continue
            if alt != ("attr", ("attr", p, "func"), "id"):
                return False
            fx = Facts(fa, s_)
            if not (fx.isinstance_of(p, {"ast.Call"}) and fx.isinstance_of(("attr", p, "func"), {"ast.Name"})):
                return False
            ok_val = True
    return ok_val


def branch_key(fa, fx: Facts, source_term) -> Tuple:
    """which inner operator this return is reached for: ('Select',) / ('else',) / ('else', 'true') ..."""
    pos = []
    neg = []
    extra = []
    subj_ok = True
    for a, pol in fx.atoms:
        if isinstance(a, ast.Call) and isinstance(a.func, ast.Name):
            if a.func.id == "is_call_of" and len(a.args) == 2 and isinstance(a.args[1], ast.Constant):
                subj = strip_sites(fa.term_of(a.args[0]))
                if subj != source_term:
                    subj_ok = False
                (pos if pol else neg).append(a.args[1].value)
            elif a.func.id == "lambda_is_true":
                extra.append("true" if pol else "nottrue")
        elif isinstance(a, ast.Compare) and len(a.ops) == 1 and isinstance(a.ops[0], ast.Eq) and isinstance(a.comparators[0], ast.Constant) and isinstance(a.comparators[0].value, str) and fa.cfg.has_node(a.left):
            # `<name of the function x calls> == "Op"` through a private classifier (x.func.id for a call of a plain name, else None)
            try:
                t = strip_sites(fa.term_of(a.left))
            except AnalysisError:
                continue
            if t[0] == "app" and t[1][0] == "global" and len(t[2]) == 1 and _is_callee_name_classifier(fa.ctx.model, t[1][1]):
                if t[2][0] != source_term:
                    subj_ok = False
                (pos if pol else neg).append(a.comparators[0].value)
            else:
                # the same read in place (or after the classifier was inlined): x.func.id, possibly "or None when x is no such call"
                alts = [x for x in (t[1] if t[0] == "phi" else [t]) if x != ("const", None)]
                if len(alts) == 1 and alts[0][0] == "attr" and alts[0][2] == "id" and alts[0][1][0] == "attr" and alts[0][1][2] == "func":
                    if alts[0][1][1] != source_term:
                        subj_ok = False
                    (pos if pol else neg).append(a.comparators[0].value)
    pos = sorted(set(pos))
    if len(pos) == 1:
        return (pos[0],) + tuple(extra) + (() if subj_ok else ("!subject",))
    if not pos:
        return ("else",) + tuple(sorted(extra)) + (() if subj_ok else ("!subject",))
    return ("ambiguous",) + tuple(sorted(pos))


def compare(model: Model, ctx: TermCtx) -> List[Dict[str, Any]]:
    """one record per (entry, branch): kind in {'ok', 'wiring', 'visit', 'missing-branch', 'extra-branch', 'subject'}"""
    out: List[Dict[str, Any]] = []
    cls = model.find_class("simplify_chained_calls", in_module="func_adl.ast.function_simplifier")
    for entry, src in SPECS.items():
        impl = cls.methods.get(entry)
        if impl is None:
            raise AnalysisError(f"anchor vanished: simplify_chained_calls.{entry}")
        spec = spec_function(model, src, "func_adl.ast.function_simplifier", "simplify_chained_calls")
        from .normalise import unrolled

        impl0 = impl
        impl = unrolled(model, impl0)  # first-match dispatch over a literal table read as the if-chain it abbreviates
        fa_i = ctx.analysis(impl)
        fa_s = ctx.analysis(spec)
        src_i = ("visit", ("index", ("param", impl.pos_params[2]), 0))
        src_s = ("visit", ("index", ("param", spec.pos_params[2]), 0))
        spec_by_key = {}
        for s, n in fa_s.returns():
            k = branch_key(fa_s, Facts(fa_s, s), src_s)
            spec_by_key[k] = canon(fa_s.term_of(s.value, n), spec.pos_params)
        seen = set()
        for s, n in fa_i.returns():
            k = branch_key(fa_i, Facts(fa_i, s), src_i)
            t = canon(fa_i.term_of(s.value, n), impl.pos_params)
            from .terms import dynamic_dispatch

            if dynamic_dispatch(t) is not None:
                raise AnalysisError(f"{entry} chooses the fusion method with getattr(self, <name computed from a table>): the (outer, inner) cases cannot be read off its branches; the fusion-law comparison does not apply to this shape")
            rec = dict(entry=entry, branch=k, stmt=s, impl=impl0, term=t)
            if "!subject" in k:
                rec["kind"] = "subject"
                rec["why"] = "the inner operator is tested on something other than the visited source self.visit(args[0])"
                out.append(rec)
                continue
            if k not in spec_by_key:
                rec["kind"] = "extra-branch"
                rec["why"] = f"branch {k} has no fusion law in the table"
                out.append(rec)
                continue
            seen.add(k)
            want = spec_by_key[k]
            rec["want"] = want
            if drop_sites(t) == drop_sites(want) and _same_sharing(t, want):
                rec["kind"] = "ok"
            elif drop_sites(strip_visits(t)) == drop_sites(strip_visits(want)) and _same_sharing(strip_visits(t), strip_visits(want)):
                miss = missing_visits(drop_sites(t), drop_sites(want))
                rec["kind"] = "visit" if miss else "ok"
                rec["why"] = f"{len(miss)} position(s) that the law visits are left unvisited" if miss else "extra visits only"
            else:
                rec["kind"] = "wiring"
                rec["why"] = _first_diff(drop_sites(strip_visits(t)), drop_sites(strip_visits(want)))
            out.append(rec)
        for k in spec_by_key:
            if k not in seen:
                out.append(dict(entry=entry, branch=k, stmt=impl0.node, impl=impl0, kind="missing-branch", why=f"no path of {entry} implements the case {k}", term=None, want=spec_by_key[k]))
    return out


def _site_shape(t: Any) -> List[int]:
    out: List[int] = []

    def go(x):
        if isinstance(x, tuple):
            if x and x[0] == "app" and len(x) == 5:
                out.append(x[4])
                go(x[1])
                go(x[2])
                go(x[3])
                return
            for y in x:
                go(y)

    go(t)
    return out


def _same_sharing(a: Any, b: Any) -> bool:
    """the pattern of shared call results (same fresh name used twice vs two fresh names) agrees."""
    return _site_shape(a) == _site_shape(b)


def _first_diff(a: Any, b: Any, path: str = "") -> str:
    if a == b:
        return ""
    if isinstance(a, tuple) and isinstance(b, tuple) and len(a) == len(b) and a and b and a[0] == b[0]:
        for i, (x, y) in enumerate(zip(a, b)):
            d = _first_diff(x, y, f"{path}/{a[0]}" if isinstance(a[0], str) else path)
            if d:
                return d
    return f"at {path or '/'}: implementation has {show(a)[:110]} where the law has {show(b)[:110]}"
