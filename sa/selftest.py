"""Checker self-test (thorough tier): seeded-fault and benign variants of the *current* tree.

Each variant is a patch applied to a scratch copy of $FUNC_ADL_REPO/func_adl (tempfile.mkdtemp, removed as
soon as the variant has been analysed).  Only source is analysed; func_adl is never run.

 * seeded   seeded/<id>/patch.diff        realistic property-breaking changes (from independent sub-agents)
 * revert   sa/selftest/fixes/<id>.diff   reverse of a 'fix:' commit = the original defect
 * benign   sa/selftest/benign/<id>.diff  behaviour-preserving refactors: every rule must stay silent

variants.json maps each variant to the properties whose check is expected to fire.
CLI:  python -m sa.selftest [--props C01,C02] [--variants a,b] [--all-props]   prints the matrix.
"""
from __future__ import annotations

import concurrent.futures as cf
import importlib
import json
import os
import shutil
import subprocess
import sys
import tempfile
import time
from typing import Any, Dict, List, Optional, Tuple

HERE = os.path.dirname(os.path.abspath(__file__))
VERIF = os.path.dirname(HERE)
VARIANTS = os.path.join(HERE, "selftest", "variants.json")
ALL_PROPS = [f"C{i:02d}" for i in range(1, 21)]


def load_variants(retired: bool = False) -> List[dict]:
    """variants in force; 'retired' ones (seeded changes that a later repair of /repo made harmless: their demonstration
    passes with the change applied, see tools/verify_all_variants.py) are kept on file but take no part in the self-test"""
    with open(VARIANTS) as fh:
        vs = json.load(fh)["variants"]
    return vs if retired else [v for v in vs if v.get("kind") != "retired"]


def _make_scratch(repo: str) -> str:
    d = tempfile.mkdtemp(prefix="fadl_selftest_")
    shutil.copytree(os.path.join(repo, "func_adl"), os.path.join(d, "func_adl"))
    return d


def _apply(scratch: str, patch: str, reverse: bool) -> bool:
    cmd = ["git", "apply", "--whitespace=nowarn"] + (["-R"] if reverse else []) + [patch]
    r = subprocess.run(cmd, cwd=scratch, capture_output=True, text=True)
    return r.returncode == 0


def analyse(prop: str, repo: str) -> Tuple[str, List[dict]]:
    """run one property's rules on repo; returns ('ok'|'error', findings not matched by known-findings)."""
    sys.path.insert(0, VERIF) if VERIF not in sys.path else None
    from sa.model import Model
    from sa.report import Run, load_known, match_known

    mod = importlib.import_module(f"sa.rules.{prop.lower()}")
    try:
        run = Run(prop, Model(repo), "quick", 0)
        mod.check(run)
        from sa.state import finalize

        finalize(run)
    except Exception as e:  # noqa
        return f"error: {type(e).__name__}: {e}", []
    known = load_known()
    return "ok", [f.to_json() for f in run.findings if match_known(known, f) is None]


def run_variant(v: dict, props: List[str], repo: str) -> Dict[str, Any]:
    patch = os.path.join(VERIF, v["patch"])
    scratch = _make_scratch(repo)
    try:
        if not _apply(scratch, patch, bool(v.get("reverse"))):
            return dict(name=v["name"], status="skipped", why="patch does not apply to the current tree")
        out = {}
        for p in props:
            st, fs = analyse(p, scratch)
            out[p] = dict(status=st, fired=sorted({f["rule"] for f in fs}), findings=fs[:3])
        return dict(name=v["name"], status="analysed", results=out)
    finally:
        shutil.rmtree(scratch, ignore_errors=True)


def pooled_map(fn, items, workers: int = 16, chunk: int = 96):
    """map over a process pool that is replaced every `chunk` items: the analysis keeps per-tree caches, and a worker
    that has seen a few dozen scratch trees holds gigabytes (max_tasks_per_child deadlocks on this interpreter)"""
    items = list(items)
    for i in range(0, len(items), chunk):
        part = items[i:i + chunk]
        with cf.ProcessPoolExecutor(max_workers=min(workers, max(1, len(part)))) as ex:
            yield from ex.map(fn, part)


def run_for(prop: str, seed: int = 0) -> Dict[str, Any]:
    """self-test of one property's rules: every variant that names prop in 'expect' (fire) plus all benign ones."""
    repo = os.environ.get("FUNC_ADL_REPO", "/repo")
    vs = [v for v in load_variants() if prop in v.get("expect", []) or v["kind"] == "benign"]
    import random

    random.Random(seed).shuffle(vs)
    res = dict(seeded=0, detected=0, benign=0, silent=0, skipped=0, mismatches=[], details=[])
    if True:
        for v, r in zip(vs, pooled_map(_rv, [(v, [prop], repo) for v in vs])):
            if r["status"] == "skipped":
                res["skipped"] += 1
                continue
            pr = r["results"][prop]
            fired = bool(pr["fired"])
            if v["kind"] == "benign":
                res["benign"] += 1
                if not fired and pr["status"] == "ok":
                    res["silent"] += 1
                elif not fired and prop in v.get("refuse", []) and pr["status"].startswith("error: AnalysisError"):
                    # documented limit (DESIGN 9.5): the rule says it cannot read this shape instead of judging it
                    res["refused"] = res.get("refused", 0) + 1
                else:
                    res["mismatches"].append(f"benign variant {v['name']} -> {pr['status']} {pr['fired']}")
            else:
                res["seeded"] += 1
                if fired:
                    res["detected"] += 1
                else:
                    res["mismatches"].append(f"seeded variant {v['name']} not flagged by {prop} ({pr['status']})")
            res["details"].append(dict(variant=v["name"], kind=v["kind"], fired=pr["fired"], status=pr["status"]))
    return res


def _rv(a):
    return run_variant(*a)


def main() -> int:
    import argparse

    ap = argparse.ArgumentParser()
    ap.add_argument("--props", default="")
    ap.add_argument("--variants", default="")
    ap.add_argument("--kind", default="")
    a = ap.parse_args()
    repo = os.environ.get("FUNC_ADL_REPO", "/repo")
    have = [p for p in ALL_PROPS if os.path.exists(os.path.join(HERE, "rules", f"{p.lower()}.py"))]
    props = [p for p in a.props.split(",") if p] or have
    vs = load_variants()
    if a.variants:
        want = set(a.variants.split(","))
        vs = [v for v in vs if v["name"] in want or any(v["name"].startswith(w + "-") for w in want)]
    if a.kind:
        vs = [v for v in vs if v["kind"] == a.kind]
    t0 = time.time()
    bad = 0
    if True:
        for v, r in zip(vs, pooled_map(_rv, [(v, props, repo) for v in vs])):
            if r["status"] == "skipped":
                print(f"{v['name']:28s} {v['kind']:7s} SKIPPED {r['why']}")
                continue
            fired = {p: x["fired"] for p, x in r["results"].items() if x["fired"]}
            errs = {p: x["status"] for p, x in r["results"].items() if x["status"] != "ok"}
            exp = set(v.get("expect", []))
            if v["kind"] == "benign":
                verdict = "ok" if not fired and not errs else "FALSE-ALARM"
                if not fired and errs and set(errs) <= set(v.get("refuse", [])) and all(e.startswith("error: AnalysisError") for e in errs.values()):
                    verdict = "refused"
            else:
                got = set(fired)
                verdict = "ok" if exp and exp <= got else ("caught-elsewhere" if got else "MISSED")
            if verdict not in ("ok", "refused"):
                bad += 1
            print(f"{v['name']:28s} {v['kind']:7s} {verdict:16s} expect={sorted(exp)} fired={fired} {('errors=' + str(errs)) if errs else ''}")
    print(f"{len(vs)} variants x {len(props)} checks in {time.time() - t0:.1f}s; {bad} need attention")
    return 0


if __name__ == "__main__":
    sys.exit(main())
