"""E3 - ownership / mutation-effect analysis.

For every function of the package: the set of *locations* (terms rooted at a parameter, built from
attribute / index / element steps only) whose state the function may change, directly or through
callees (fixpoint over resolved calls, with visitor dispatch).  Mutation primitives:

  * attribute store / setattr / del on an object            location = the object
  * subscript store / del, list/dict/set mutator methods    location = the container
  * ast.NodeTransformer.generic_visit(x) (stdlib, in place) location = x and x.<list fields>
  * passing a location to a callee that mutates the corresponding parameter

copy.copy(x) is a fresh top object whose fields still alias x's; copy.deepcopy / constructors /
literals are fresh.  A transformer whose overriding generic_visit works on copy.copy(node) with
every list field re-bound to a new list ("copy-on-write transformer") does not mutate its input.
"""
from __future__ import annotations

import ast
from typing import Dict, List, Optional, Set, Tuple

from .lib import calls_in, own_nodes, stmt_of
from .model import AnalysisError, ClassInfo, FuncInfo, Model, dotted
from .terms import FuncAnalysis, Term, TermCtx, show, strip_sites

VIEW_FUNCS = {"ast.walk", "ast.iter_child_nodes", "builtins.list", "builtins.tuple", "builtins.sorted", "builtins.reversed", "builtins.iter", "builtins.enumerate", "builtins.zip", "builtins.filter"}
LIST_MUTATORS = {"append", "extend", "insert", "remove", "pop", "clear", "sort", "reverse", "update", "setdefault", "popitem", "add", "discard", "__setitem__", "__delitem__"}
MAX_PATH = 7


class Mut:
    __slots__ = ("loc", "kind", "fi", "stmt", "via")

    def __init__(self, loc: Term, kind: str, fi: FuncInfo, stmt: ast.AST, via: str = ""):
        self.loc = loc
        self.kind = kind
        self.fi = fi
        self.stmt = stmt
        self.via = via

    def __repr__(self):
        return f"Mut({loc_show(self.loc)}, {self.kind}, {self.fi.name}@{getattr(self.stmt, 'lineno', '?')} {self.via})"


def locations(t: Term, top: bool = True) -> List[Tuple[Term, Optional[str], bool]]:
    """Abstract shared locations a value term may denote: (root, first attribute step or None, deep?).
    Fresh values give [].  `top`: asking about the object t itself (True) or about something reached through it."""
    k = t[0]
    if k in ("param", "free", "global"):
        return [(t, None, False)]
    if k in ("attr", "index", "slice", "subscript", "elem"):
        out = []
        for r, f, d in locations(t[1], top=False):
            if k == "attr" and f is None and not d:
                x = (r, t[2], False)
            else:
                x = (r, f, True)
            if x not in out:
                out.append(x)
        return out
    if k == "app":
        callee = t[1]
        if callee == ("global", "copy.copy") and len(t[2]) == 1:
            # the copy itself is fresh; what is reached through it is shared with the original
            return [] if top else locations(t[2][0], top=False)
        if callee[0] == "global" and callee[1] in VIEW_FUNCS:
            # a new container (or iterator) whose *elements* are the argument's elements / descendants
            if top:
                return []
            out = []
            for a in t[2]:
                for x in locations(a, top=False):
                    y = deepen(x)
                    if y not in out:
                        out.append(y)
            return out
        if callee[0] == "global" and callee[1] in ("copy.deepcopy", "builtins.dict", "builtins.set", "ast.parse", "builtins.bytearray"):
            return []
        if callee[0] == "global" and (callee[1].startswith("ast.") or callee[1].startswith("builtins.")):
            return []
        return [(("unknown", show(strip_sites(t))[:80]), None, False)]
    if k == "upd":
        return locations(t[1], top)
    if k == "phi":
        out = []
        for a in t[1]:
            for x in locations(a, top):
                if x not in out:
                    out.append(x)
        return out
    if k == "ifexp":
        return locations(("phi", (t[2], t[3])), top)
    if k in ("visit", "gvisit"):
        return locations(t[1], top)
    if k == "tvisit":
        return locations(t[2], top)
    if k in ("new", "list", "tuple", "dict", "set", "const", "comp", "concat", "fstr", "op", "lambda"):
        return []
    return [(("unknown", k), None, False)]


def loc_root(loc) -> Term:
    return loc[0]


def loc_show(loc) -> str:
    r, f, d = loc
    return show(r) + (f".{f}" if f else "") + (".<below>" if d else "")


def deepen(loc):
    return (loc[0], loc[1], True)


def rebase(callee_loc, actual_loc):
    """callee location (q, f, d) with q bound to actual location (r, f0, d0)."""
    q, f, d = callee_loc
    r, f0, d0 = actual_loc
    if f is None:
        return (r, f0, d0 or d)
    if f0 is None and not d0:
        return (r, f, d)
    return (r, f0, True)


class Effects:
    def __init__(self, ctx: TermCtx):
        self.ctx = ctx
        self.model: Model = ctx.model
        self.kind: Dict[str, str] = {}
        self.cow_reason: Dict[str, str] = {}
        self.direct: Dict[str, List[Mut]] = {}
        self.summary: Dict[str, List[Mut]] = {}
        self.unknown_roots: List[str] = []
        self.edges: Dict[str, list] = {}
        self._classify()
        self._compute()

    # ------------------------------------------------------------------ transformer kinds
    def _classify(self) -> None:
        m = self.model
        for ci in m.classes.values():
            if m.is_transformer(ci):
                ok, why = self._is_cow(ci)
                self.kind[ci.qual] = "cow" if ok else "inplace"
                self.cow_reason[ci.qual] = why
            elif m.is_visitor(ci):
                self.kind[ci.qual] = "visitor"

    def _is_cow(self, ci: ClassInfo) -> Tuple[bool, str]:
        m = self.model
        gv = m.find_method(ci, "generic_visit")
        if gv is None:
            return False, "inherits the in-place ast.NodeTransformer.generic_visit"
        from .normalise import unrolled as _unrolled

        gv = _unrolled(m, gv)  # the copy may be made by a private helper: read in place
        fa = self.ctx.analysis(gv)
        node_p = gv.pos_params[1] if len(gv.pos_params) > 1 else None
        if node_p is None:
            return False, "generic_visit has no node parameter"
        base_calls = []
        for c in calls_in(gv):
            f = c.func
            is_super = isinstance(f, ast.Attribute) and f.attr == "generic_visit" and isinstance(f.value, ast.Call) and isinstance(f.value.func, ast.Name) and f.value.func.id == "super"
            is_explicit = isinstance(f, ast.Attribute) and f.attr == "generic_visit" and dotted(f.value) in ("ast.NodeTransformer", "NodeTransformer")
            if is_super or is_explicit:
                base_calls.append((c, c.args[-1] if c.args else None))
        if len(base_calls) != 1:
            return False, f"overriding generic_visit delegates to the base implementation {len(base_calls)} times"
        call, arg = base_calls[0]
        # the copy is made in generic_visit itself, or in a private helper it hands the node to
        host, host_fa, host_param, at_call = gv, fa, node_p, call
        copy_name = None
        if isinstance(arg, ast.Name):
            copy_name = arg.id
        elif isinstance(arg, ast.Call) and len(arg.args) == 1 and not arg.keywords and isinstance(arg.args[0], ast.Name) and arg.args[0].id == node_p:
            h = None
            f_ = arg.func
            if isinstance(f_, ast.Name):
                tgt = m.lookup_target(m.resolve_dotted(gv.module, gv, f_.id))
                h = tgt if isinstance(tgt, FuncInfo) else None
            elif isinstance(f_, ast.Attribute) and isinstance(f_.value, ast.Name) and f_.value.id == gv.pos_params[0]:
                h = m.find_method(ci, f_.attr)
            if h is not None:
                hp = h.pos_params[-1] if h.pos_params else None
                rets = [n for n in own_nodes(h) if isinstance(n, ast.Return)]
                if hp is not None and len(rets) == 1 and isinstance(rets[0].value, ast.Name):
                    host, host_fa, host_param, at_call, copy_name = h, self.ctx.analysis(h), hp, rets[0], rets[0].value.id
        if copy_name is None:
            return False, "base generic_visit is not applied to a local copy"
        t = strip_sites(host_fa.term_of(ast.Name(id=copy_name, ctx=ast.Load()), host_fa.cfg.node_of(at_call))) if host is not gv else strip_sites(fa.term_of(arg))
        base = t[1] if t[0] == "upd" else t
        if not (base[0] == "app" and base[1] == ("global", "copy.copy") and base[2] == (("param", host_param),)):
            return False, f"base generic_visit is applied to {show(t)[:80]}, not to copy.copy({node_p})"
        # the list-field rebinding loop
        found = False
        for n in own_nodes(host):
            if not isinstance(n, ast.For):
                continue
            it = strip_sites(host_fa.term_of(n.iter, host_fa.cfg.node_of(n)))
            prefiltered = False
            src_ = ("app", ("global", "ast.iter_fields"), (("param", host_param),), ())
            if it[0] == "comp" and it[1] in ("GeneratorExp", "ListComp") and len(it[3]) == 1 and it[3][0][0][:2] == src_[:2] and len(it[3][0][0][2]) == 1 and it[3][0][0][2][0] in (base, t):
                src_ = it[3][0][0]
            if it[0] == "comp" and it[1] in ("GeneratorExp", "ListComp") and len(it[3]) == 1 and it[3][0][0] == src_:
                # the (field, value) pairs drawn from a generator that keeps exactly the list-valued fields
                el_ = ("elem", src_)
                ident = it[2] in (el_, ("tuple", (("index", el_, 0), ("index", el_, 1))))
                want_c = (("app", ("global", "builtins.isinstance"), (("index", el_, 1), ("global", "builtins.list")), ()),)
                if ident and tuple(it[3][0][1]) == want_c:
                    prefiltered = True
                    it = src_
            # the fields may be listed from the visited node or from its shallow copy (same names, same values)
            if not (it[0] == "app" and it[1] == ("global", "ast.iter_fields") and len(it[2]) == 1 and it[2][0] in (("param", host_param), base, t)):
                continue
            if not (isinstance(n.target, ast.Tuple) and len(n.target.elts) == 2 and all(isinstance(e, ast.Name) for e in n.target.elts)):
                continue
            fvar, vvar = n.target.elts[0].id, n.target.elts[1].id  # type: ignore
            if any(isinstance(x, (ast.Break, ast.Return)) for x in ast.walk(n)):
                return False, "list-field copy loop has an early exit"
            # the re-binding statement, made exactly when the field's value is a list (written as `if isinstance(v, list):
            # setattr(..)` or as `if not isinstance(v, list): continue` followed by the setattr)
            from .lib import Facts as _Facts

            for s in [x for x in ast.walk(n) if isinstance(x, ast.Expr) and isinstance(x.value, ast.Call) and isinstance(x.value.func, ast.Name) and x.value.func.id == "setattr"]:
                a = s.value.args
                if not (len(a) == 3 and isinstance(a[0], ast.Name) and isinstance(a[1], ast.Name) and a[1].id == fvar and _is_list_copy(a[2], vvar)):
                    continue
                if a[0].id != copy_name:
                    # another name for the same copy (the helper that made it was read in place)
                    try:
                        t0 = strip_sites(host_fa.term_of(a[0]))
                    except AnalysisError:
                        continue
                    while t0[0] == "upd":
                        t0 = t0[1]
                    if t0 == ("param", host_param):
                        return False, "the new lists are given to the visited node instead of its copy: the copy that the base generic_visit edits in place still holds the original's list objects, so the edits land in every node that shares them"
                    if t0 != base:
                        continue
                conds = [(x_, p_) for x_, p_ in _Facts(host_fa, s, expand=False).atoms if any(y_ is x_ or True for y_ in [0]) and any(isinstance(z_, ast.Name) and z_.id in (vvar, fvar) for z_ in ast.walk(x_))]
                is_list = [(x_, p_) for x_, p_ in conds if isinstance(x_, ast.Call) and isinstance(x_.func, ast.Name) and x_.func.id == "isinstance" and len(x_.args) == 2 and isinstance(x_.args[0], ast.Name) and x_.args[0].id == vvar and isinstance(x_.args[1], ast.Name) and x_.args[1].id == "list" and p_]
                if prefiltered and not conds:
                    found = True
                    continue
                if len(is_list) != 1 or len(conds) != 1:
                    return False, "list fields are copied under a condition other than isinstance(value, list)"
                found = True
            # the loop must run before the delegation on every path
            if found and not host_fa.cfg.dominates(host_fa.cfg.node_of(n), host_fa.cfg.node_of(at_call)):
                return False, "list-field copy loop does not dominate the delegation"
        if not found:
            # a re-binding of list fields that is there but written in a way this reader does not follow (the fields
            # drawn from a generator, a helper that yields them, ..) is not "missing": say so instead of judging it
            for lp_ in [x for x in own_nodes(host) if isinstance(x, (ast.For, ast.While))]:
                for c_ in ast.walk(lp_):
                    if isinstance(c_, ast.Call) and isinstance(c_.func, ast.Name) and c_.func.id == "setattr" and len(c_.args) == 3 and isinstance(c_.args[2], ast.Call) and isinstance(c_.args[2].func, ast.Name) and c_.args[2].func.id == "list":
                        raise AnalysisError(f"{host.name} re-binds list fields of its copy in a loop this analysis cannot read (not `for f, v in ast.iter_fields(node): if isinstance(v, list): setattr(copy, f, list(v))`): whether every list field gets a new list is not decided")
            return False, "no loop re-binding every list field of the copy to a new list (the in-place child-list edits of the base generic_visit would land on the original's lists)"
        # result must be the delegation's result
        rt = strip_sites(fa.return_term())
        if rt is None or rt[0] != "gvisit":
            return False, "generic_visit does not return the base implementation's result"
        # visit_* methods of the class must not call the base generic_visit directly
        for name, meth in m.all_methods(ci).items():
            if meth is gv or not (name.startswith("visit_") or name.startswith("call_")):
                continue
            for c in calls_in(meth):
                f = c.func
                if isinstance(f, ast.Attribute) and f.attr == "generic_visit" and not (isinstance(f.value, ast.Name) and f.value.id == meth.pos_params[0]):
                    return False, f"{name} calls the base generic_visit directly, bypassing the copy"
        return True, "generic_visit works on copy.copy(node) with every list field re-bound to a new list"

    # ------------------------------------------------------------------ direct effects
    def _direct(self, fi: FuncInfo) -> List[Mut]:
        out: List[Mut] = []
        try:
            fa = self.ctx.analysis(fi)
        except AnalysisError:
            return out
        cls = fi.cls
        ckind = self.kind.get(cls.qual) if cls is not None else None

        def add(expr: ast.AST, kind: str, stmt: ast.AST, through: bool = False):
            if not fa.cfg.has_node(expr):
                return
            t = strip_sites(fa.term_of(expr))
            for loc in locations(t, top=not through):
                out.append(Mut(loc, kind, fi, stmt))

        for n in own_nodes(fi):
            if isinstance(n, (ast.Assign, ast.AugAssign, ast.AnnAssign, ast.Delete)):
                tgts = n.targets if isinstance(n, (ast.Assign, ast.Delete)) else [n.target]
                stack = list(tgts)
                while stack:
                    tg = stack.pop()
                    if isinstance(tg, (ast.Tuple, ast.List)):
                        stack.extend(tg.elts)
                    elif isinstance(tg, ast.Attribute):
                        add(tg.value, f"attribute store .{tg.attr}", n)
                    elif isinstance(tg, ast.Subscript):
                        add(tg.value, "item store", n)
                    elif isinstance(tg, ast.Name) and isinstance(n, ast.AugAssign):
                        # x += [..] mutates a list in place
                        add(tg, "augmented assignment", n)
            elif isinstance(n, ast.Call):
                f = n.func
                if isinstance(f, ast.Name) and f.id in ("setattr", "delattr") and n.args:
                    add(n.args[0], f"{f.id}()", stmt_of(n))
                elif isinstance(f, ast.Attribute) and f.attr in LIST_MUTATORS:
                    if isinstance(f.value, ast.Attribute) and f.value.attr == "__dict__":
                        add(f.value.value, f"attribute change through __dict__.{f.attr}()", stmt_of(n))
                    else:
                        add(f.value, f".{f.attr}()", stmt_of(n))
                # in-place generic_visit of the stdlib transformer
                if cls is not None and self.model.is_transformer(cls) and isinstance(f, ast.Attribute) and f.attr == "generic_visit" and n.args:
                    is_self = isinstance(f.value, ast.Name) and fi.pos_params and f.value.id == fi.pos_params[0]
                    base_direct = not is_self
                    if base_direct or ckind == "inplace":
                        target = n.args[-1]
                        if fa.cfg.has_node(target):
                            t = strip_sites(fa.term_of(target))
                            if not (ckind == "cow" and fi.name == "generic_visit" and self._is_cow_copy(t)):
                                for loc in locations(t, top=True):
                                    out.append(Mut(loc, "in-place NodeTransformer.generic_visit (fields re-assigned)", fi, stmt_of(n)))
                                for loc in locations(t, top=False):
                                    out.append(Mut(deepen(loc), "in-place NodeTransformer.generic_visit (child lists edited)", fi, stmt_of(n)))
        return out

    @staticmethod
    def _is_cow_copy(t: Term) -> bool:
        base = t[1] if t[0] == "upd" else t
        return base[0] == "app" and base[1] == ("global", "copy.copy")

    # ------------------------------------------------------------------ fixpoint
    def _callee_bindings(self, fi: FuncInfo, fa: FuncAnalysis, c: ast.Call) -> List[Tuple[FuncInfo, Dict[str, ast.AST], str]]:
        """resolved package callees of call c with parameter -> actual argument expression."""
        m = self.model
        out: List[Tuple[FuncInfo, Dict[str, ast.AST], str]] = []
        f = c.func

        def bind(callee: FuncInfo, actuals: List[ast.AST], skip_self: bool) -> Dict[str, ast.AST]:
            ps = callee.pos_params[1:] if skip_self else callee.pos_params
            b = {p: a for p, a in zip(ps, actuals)}
            for k in c.keywords:
                if k.arg:
                    b[k.arg] = k.value
            return b

        cls = fi.cls
        # self.method(...) / super().method(...)
        if isinstance(f, ast.Attribute) and cls is not None and fi.pos_params:
            recv = f.value
            is_self = isinstance(recv, ast.Name) and recv.id == fi.pos_params[0]
            is_super = isinstance(recv, ast.Call) and isinstance(recv.func, ast.Name) and recv.func.id == "super"
            if is_self or is_super:
                if f.attr == "visit" and m.is_visitor(cls) and c.args:
                    for name, meth in m.all_methods(cls).items():
                        if (name.startswith("visit_") or name == "generic_visit") and len(meth.pos_params) > 1:
                            out.append((meth, {meth.pos_params[1]: c.args[0]}, "visitor dispatch"))
                    return out
                target = m.find_method(cls, f.attr, skip_self=is_super)
                if target is not None and not target.is_property:
                    out.append((target, bind(target, list(c.args), "staticmethod" not in target.decorators), "method"))
                    return out
        if not fa.cfg.has_node(c):
            return out
        ct = strip_sites(fa.term_of(c.func))
        # T().visit(x) for a package visitor/transformer class T
        if ct[0] == "attr" and ct[2] == "visit" and c.args:
            recv_t = ct[1]
            base = recv_t[1] if recv_t[0] == "upd" else recv_t
            if base[0] == "app" and base[1][0] == "global":
                r = m.lookup_target(base[1][1])
                if isinstance(r, ClassInfo) and m.is_visitor(r):
                    for name, meth in m.all_methods(r).items():
                        if (name.startswith("visit_") or name == "generic_visit") and len(meth.pos_params) > 1:
                            out.append((meth, {meth.pos_params[1]: c.args[0]}, "visitor dispatch"))
                    if self.kind.get(r.qual) == "inplace" and m.find_method(r, "generic_visit") is None:
                        out.append((None, {"node": c.args[0]}, "stdlib in-place generic_visit"))  # type: ignore
                    return out
        if ct[0] == "global":
            r = m.lookup_target(ct[1])
            if isinstance(r, FuncInfo):
                if r.cls is not None and c.args:  # Class.method(self, ...)
                    out.append((r, bind(r, list(c.args), False), "explicit base call"))
                else:
                    out.append((r, bind(r, list(c.args), False), "function"))
            elif isinstance(r, ClassInfo):
                init = m.find_method(r, "__init__")
                if init is not None:
                    out.append((init, bind(init, list(c.args), True), "constructor"))
        return out

    def _compute(self) -> None:
        m = self.model
        for fi in m.funcs.values():
            self.direct[fi.qual] = self._direct(fi)
            self.summary[fi.qual] = list(self.direct[fi.qual])
        # call edges
        edges: Dict[str, List[Tuple[ast.Call, FuncInfo, Dict[str, ast.AST], str]]] = {}
        for fi in m.funcs.values():
            try:
                fa = self.ctx.analysis(fi)
            except AnalysisError:
                continue
            lst = []
            for c in calls_in(fi):
                for callee, binding, how in self._callee_bindings(fi, fa, c):
                    lst.append((c, callee, binding, how))
            edges[fi.qual] = lst
        self.edges = edges
        changed = True
        rounds = 0
        while changed and rounds < 30:
            changed = False
            rounds += 1
            for fi in m.funcs.values():
                fa = self.ctx.analysis(fi)
                have = {(x.loc, x.kind, id(x.stmt)) for x in self.summary[fi.qual]}
                for c, callee, binding, how in edges.get(fi.qual, []):
                    if callee is None:
                        callee_muts = [Mut((("param", "node"), None, False), "in-place NodeTransformer.generic_visit", fi, c), Mut((("param", "node"), None, True), "in-place NodeTransformer.generic_visit (child lists edited)", fi, c)]
                    else:
                        callee_muts = self.summary[callee.qual]
                    for mu in callee_muts:
                        root = loc_root(mu.loc)
                        if root[0] != "param" or root[1] not in binding:
                            continue
                        actual = binding[root[1]]
                        if not fa.cfg.has_node(actual):
                            continue
                        at = strip_sites(fa.term_of(actual))
                        # rebuild location: replace the root by each location of the actual
                        path_top = mu.loc[1] is None and not mu.loc[2]
                        for base in locations(at, top=path_top):
                            new_loc = rebase(mu.loc, base)
                            key = (new_loc, mu.kind, id(stmt_of(c)))
                            if key not in have:
                                have.add(key)
                                via = f"{callee.qual.split(':')[-1] if callee else 'ast.NodeTransformer'}({how}) <- {mu.via}" if mu.via else f"{callee.qual.split(':')[-1] if callee else 'ast.NodeTransformer'} [{how}] {mu.fi.name}:{getattr(mu.stmt, 'lineno', '?')}"
                                self.summary[fi.qual].append(Mut(new_loc, mu.kind, fi, stmt_of(c), via[:300]))
                                changed = True

    # ------------------------------------------------------------------ queries
    def mutated(self, fi: FuncInfo, root: Term) -> List[Mut]:
        return [x for x in self.summary.get(fi.qual, []) if loc_root(x.loc) == root]


def _is_list_copy(e: ast.AST, var: str) -> bool:
    # list(value) | value[:] | value.copy() | [*value] | copy.copy(value)
    if isinstance(e, ast.Call):
        if isinstance(e.func, ast.Name) and e.func.id == "list" and len(e.args) == 1 and isinstance(e.args[0], ast.Name) and e.args[0].id == var:
            return True
        if isinstance(e.func, ast.Attribute) and e.func.attr == "copy" and isinstance(e.func.value, ast.Name) and e.func.value.id == var and not e.args:
            return True
        if dotted(e.func) == "copy.copy" and len(e.args) == 1 and isinstance(e.args[0], ast.Name) and e.args[0].id == var:
            return True
    if isinstance(e, ast.Subscript) and isinstance(e.value, ast.Name) and e.value.id == var and isinstance(e.slice, ast.Slice) and e.slice.lower is None and e.slice.upper is None:
        return True
    if isinstance(e, ast.List) and len(e.elts) == 1 and isinstance(e.elts[0], ast.Starred) and isinstance(e.elts[0].value, ast.Name) and e.elts[0].value.id == var:
        return True
    return False


_EFF_CACHE: Dict[int, Effects] = {}


def effects_for(model: Model) -> Effects:
    k = id(model)
    if k not in _EFF_CACHE:
        _EFF_CACHE[k] = Effects(TermCtx(model, max_depth=3, identity={"lambda_unwrap"}))
    return _EFF_CACHE[k]


if __name__ == "__main__":
    from .model import get_model

    e = effects_for(get_model())
    for q, k in sorted(e.kind.items()):
        print(k, q, "-", e.cow_reason.get(q, ""))
    for q in sorted(e.summary):
        ms = [x for x in e.summary[q] if loc_root(x.loc)[0] == "param"]
        if ms:
            print(q)
            for x in ms:
                print("   ", loc_show(x.loc), "|", x.kind, "|", getattr(x.stmt, "lineno", "?"), "|", x.via[:120])


def reachable_from(eff: Effects, roots: List[FuncInfo]) -> List[FuncInfo]:
    """functions reachable through resolved calls (incl. visitor dispatch, constructors, nested defs)."""
    m = eff.model
    seen: Dict[str, FuncInfo] = {}
    st = list(roots)
    while st:
        f = st.pop()
        if f.qual in seen:
            continue
        seen[f.qual] = f
        for _c, callee, _b, _how in eff.edges.get(f.qual, []):
            if callee is not None and callee.qual not in seen:
                st.append(callee)
        # nested functions / classes defined inside f are part of its behaviour
        for g in m.funcs.values():
            if g.parent_func is f and g.qual not in seen:
                st.append(g)
        # functions named in a literal table that f reads (module level, or a class attribute read through self): a
        # dispatch loop may call any of them
        for g in _table_functions(m, f):
            if g.qual not in seen:
                st.append(g)
        # an object of a private helper class built here: its methods run on behalf of f
        if not isinstance(f.node, ast.Lambda):
            for c in ast.walk(f.node):
                if isinstance(c, ast.Call) and isinstance(c.func, ast.Name):
                    t = m.lookup_target(m.resolve_dotted(f.module, f, c.func.id))
                    if isinstance(t, ClassInfo) and t.name.startswith("_") and not t.name.startswith("__") and not m.is_visitor(t):
                        for g in t.methods.values():
                            if g.qual not in seen:
                                st.append(g)
    return list(seen.values())


def _table_functions(m: Model, f: FuncInfo) -> List[FuncInfo]:
    out: List[FuncInfo] = []
    if isinstance(f.node, ast.Lambda):
        return out
    for n in ast.walk(f.node):
        lit = None
        if isinstance(n, ast.Name) and isinstance(n.ctx, ast.Load) and n.id not in f.params:
            lit = f.module.assigns.get(n.id)
        elif isinstance(n, ast.Attribute) and isinstance(n.ctx, ast.Load) and isinstance(n.value, ast.Name) and f.cls is not None and f.pos_params and n.value.id == f.pos_params[0]:
            lit = f.cls.class_assigns.get(n.attr)
        if not isinstance(lit, (ast.Tuple, ast.List, ast.Dict)):
            continue
        for e in ast.walk(lit):
            if isinstance(e, ast.Name) and isinstance(e.ctx, ast.Load):
                t = m.lookup_target(m.resolve_dotted(f.module, None, e.id))
                if isinstance(t, FuncInfo) and t not in out:
                    out.append(t)
            elif isinstance(e, ast.Constant) and isinstance(e.value, str) and f.cls is not None and e.value.isidentifier():
                g = m.find_method(f.cls, e.value)
                if g is not None and g not in out:
                    out.append(g)
    return out
