"""Reference ("specification") functions analysed by the same term engine as the implementation.

A specification is a few lines of Python written in the most direct style; it is parsed, attached to
the model as a synthetic function of a given module/class (so names resolve exactly as in the
implementation) and its provenance terms are compared with the implementation's, per return and per
branch condition.  Nothing is executed.
"""
from __future__ import annotations

import ast
import textwrap
from typing import Any, Dict, List, Optional, Tuple

from .lib import Facts
from .model import AnalysisError, ClassInfo, FuncInfo, Model, set_parents
from .terms import FuncAnalysis, Term, TermCtx, show, strip_visits


def spec_function(model: Model, source: str, module: str, cls: Optional[str] = None, parent_func: Optional[FuncInfo] = None) -> FuncInfo:
    tree = ast.parse(textwrap.dedent(source))
    set_parents(tree)
    fn = tree.body[0]
    if not isinstance(fn, (ast.FunctionDef, ast.AsyncFunctionDef)):
        raise AnalysisError("spec source must be one function definition")
    mi = model.module(module)
    ci = model.find_class(cls) if cls else None
    fi = FuncInfo(f"spec:{module}:{fn.name}", fn.name, fn, mi, ci, parent_func)
    fn._finfo = fi  # type: ignore
    # functions defined inside it (a normalised view keeps the nested helpers of the original): known to the term
    # engine through a side table, not listed among the package's functions
    stack = list(fn.body)
    while stack:
        x = stack.pop()
        if isinstance(x, (ast.FunctionDef, ast.AsyncFunctionDef)):
            q = f"{module}:__view__.{fn.name}.{x.name}"
            sub = FuncInfo(q, x.name, x, mi, None, fi)
            x._finfo = sub  # type: ignore
            model.__dict__.setdefault("_extra_funcs", {})[q.replace(":", ".")] = sub
            # (the name under which Model.resolve_dotted reports a definition nested in this function)
            model.__dict__["_extra_funcs"][f"{fi.qual}.{x.name}".replace(":", ".")] = sub
            continue
        if isinstance(x, (ast.ClassDef, ast.Lambda)):
            continue
        stack.extend(c for c in ast.iter_child_nodes(x) if isinstance(c, (ast.stmt, ast.ExceptHandler)))
    return fi


def canon(t: Any, params: List[str], keep_visits: bool = True) -> Any:
    """canonical form: positional parameter names, call sites numbered by first occurrence."""
    pmap = {("param", p): ("param", f"#{i}") for i, p in enumerate(params)}
    sites: Dict[Any, int] = {}

    def go(x):
        if isinstance(x, tuple):
            if x in pmap:
                return pmap[x]
            if len(x) == 2 and x[0] == "global" and isinstance(x[1], str) and x[1].startswith("func_adl."):
                return ("global", "func_adl:" + x[1].rsplit(".", 1)[-1])  # a package function is the same wherever it lives
            if x and x[0] == "app" and len(x) == 5:
                callee, args, kws, site = go(x[1]), go(x[2]), go(x[3]), x[4]
                if site not in sites:
                    sites[site] = len(sites)
                return ("app", callee, args, kws, sites[site])
            return tuple(go(y) for y in x)
        return x

    r = go(t)
    return r if keep_visits else strip_visits(r)


def first_match_as_search(t: Any) -> Any:
    """next((e for x in it if c), default) is the search loop `for x in it: if c: return e` followed by `return default`:
    as a value it is one of {default, e}. Applied to site-free terms before comparing with reference code."""
    from .terms import phi

    if isinstance(t, tuple):
        if t and t[0] == "app" and t[1] == ("global", "builtins.next") and len(t[2]) == 2 and t[2][0][0] == "comp" and t[2][0][1] == "GeneratorExp" and len(t[2][0][3]) == 1:
            return phi([first_match_as_search(t[2][1]), first_match_as_search(t[2][0][2])])
        if t and t[0] == "ifexp" and len(t) == 4 and isinstance(t[1], tuple) and len(t[1]) == 3 and t[1][0] == "op" and t[1][1] in ("Compare:Is", "Compare:IsNot") and len(t[1][2]) == 2 and t[1][2][1] == ("const", None):
            # found = finder(..) [the element a search loop stopped at, or None]; default if found is None else e(found):
            # as a value it is one of {default, e(element)} - the element a search returns under its own test is not None
            p_ = t[1][2][0]
            if isinstance(p_, tuple) and len(p_) == 2 and p_[0] == "phi" and ("const", None) in p_[1] and len(p_[1]) == 2:
                x_ = [a_ for a_ in p_[1] if a_ != ("const", None)][0]
                if isinstance(x_, tuple) and x_ and x_[0] == "elem":
                    none_b, some_b = (t[2], t[3]) if t[1][1] == "Compare:Is" else (t[3], t[2])
                    return phi([first_match_as_search(none_b), first_match_as_search(some_b)])
        return tuple(first_match_as_search(x) for x in t)
    return t


def drop_sites(t: Any) -> Any:
    if isinstance(t, tuple):
        if t and t[0] == "app" and len(t) == 5:
            return ("app", drop_sites(t[1]), drop_sites(t[2]), drop_sites(t[3]))
        return tuple(drop_sites(x) for x in t)
    return t


def returns_by_branch(fa: FuncAnalysis, key_fn) -> List[Tuple[Any, ast.Return, Term]]:
    out = []
    for s, n in fa.returns():
        fx = Facts(fa, s)
        t = fa.term_of(s.value, n) if s.value is not None else ("const", None)
        out.append((key_fn(fa, fx), s, t))
    return out


def visit_positions(t: Any) -> Tuple[Any, List[Tuple[Tuple[int, ...], bool]]]:
    """(term without visit wrappers, [(position, under_visit)] for every constructed ast.Call and every leaf)."""
    out: List[Tuple[Tuple[int, ...], bool]] = []

    def go(x, pos, under):
        if isinstance(x, tuple) and x and isinstance(x[0], str):
            if x[0] in ("visit", "gvisit") and len(x) == 2:
                return go(x[1], pos, True)
            if x[0] == "new" and x[1] == "Call":
                out.append((pos, under))
            if x[0] in ("param", "attr", "index"):
                out.append((pos, under))
                return x if x[0] == "param" else (x[0], go(x[1], pos + (1,), under)) + tuple(x[2:])
            return tuple(go(y, pos + (i,), under) if isinstance(y, tuple) else y for i, y in enumerate(x))
        if isinstance(x, tuple):
            return tuple(go(y, pos + (i,), under) if isinstance(y, tuple) else y for i, y in enumerate(x))
        return x

    s = go(t, (), False)
    return s, out


def missing_visits(impl: Any, spec: Any) -> List[Tuple[int, ...]]:
    """positions (in the visit-stripped term) that the specification visits and the implementation does not.
    Only meaningful when strip_visits(impl) == strip_visits(spec)."""
    _, pi = visit_positions(impl)
    _, ps = visit_positions(spec)
    di = dict(pi)
    return [p for p, u in ps if u and not di.get(p, False)]
