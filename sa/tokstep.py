"""E5b - a small interpreter for the token-stepping loop of the source scanner (`tokens_till`).

The loop is read from the source and *interpreted* over a handful of hand-made token sequences (a finite alphabet:
bracket operators, the stop operators, a comment, a name, a string-typed token whose text is a bracket).  Nothing of
func_adl is imported or run: the statements of the one function are walked by the evaluator below, with `tokenize`
(stdlib constants only) and the module-level literal tables of the analysed module as its environment.  Whatever the
implementation looks like - three counters, one depth, a table of deltas, a dict of counts - its behaviour on these
sequences is what the property needs: a stop token ends the scan only at nesting depth zero, brackets are brackets
only as operator tokens, comments are dropped without being looked at.

Constructs outside the evaluator's subset raise Unsupported: the caller then falls back to the syntactic reading.
"""
from __future__ import annotations

import ast
import tokenize
from typing import Any, Dict, List, Optional, Tuple


class Unsupported(Exception):
    pass


class _Stop(Exception):
    pass


class _Continue(Exception):
    pass


class _Break(Exception):
    pass


class Tok:
    def __init__(self, type_: int, string: str):
        self.type, self.string = type_, string
        self.exact_type = tokenize.EXACT_TOKEN_TYPES.get(string, type_) if type_ == tokenize.OP else type_
        self.start, self.end, self.line = (1, 0), (1, len(string)), string

    def __repr__(self):
        return f"{tokenize.tok_name.get(self.type, self.type)}:{self.string!r}"


_BUILTINS = {"len": len, "any": any, "all": all, "abs": abs, "min": min, "max": max, "sum": sum, "bool": bool, "int": int, "str": str, "tuple": tuple, "list": list, "dict": dict, "set": set, "frozenset": frozenset, "sorted": sorted, "isinstance": isinstance, "range": range, "enumerate": enumerate, "zip": zip}
_METHODS = {"get", "keys", "values", "items", "append", "pop", "count", "index", "startswith", "endswith", "strip", "copy", "setdefault", "update"}


class Interp:
    def __init__(self, module_literals: Dict[str, ast.expr], params: Dict[str, Any]):
        self.mod = module_literals
        self.env: Dict[str, Any] = dict(params)
        self.yielded: List[Any] = []
        self.steps = 0

    # ------------------------------------------------------------------ expressions
    def ev(self, e: ast.AST) -> Any:
        self.steps += 1
        if self.steps > 20000:
            raise Unsupported("too many steps")
        if isinstance(e, ast.Constant):
            return e.value
        if isinstance(e, ast.Name):
            if e.id in self.env:
                return self.env[e.id]
            if e.id == "tokenize":
                return tokenize
            if e.id in self.mod:
                v = self.ev(self.mod[e.id])
                return v
            if e.id in _BUILTINS:
                return _BUILTINS[e.id]
            if e.id in ("True", "False", "None"):
                return {"True": True, "False": False, "None": None}[e.id]
            raise Unsupported(f"name {e.id}")
        if isinstance(e, ast.Attribute):
            v = self.ev(e.value)
            if v is tokenize:
                if not e.attr.isupper() or not hasattr(tokenize, e.attr):
                    raise Unsupported(f"tokenize.{e.attr}")
                return getattr(tokenize, e.attr)
            if isinstance(v, Tok) and e.attr in ("type", "string", "exact_type", "start", "end", "line"):
                return getattr(v, e.attr)
            if isinstance(v, (dict, list, str, tuple, set)) and e.attr in _METHODS:
                return getattr(v, e.attr)
            raise Unsupported(f"attribute .{e.attr}")
        if isinstance(e, ast.Subscript):
            v, k = self.ev(e.value), self.ev(e.slice)
            try:
                return v[k]
            except Exception as ex:  # a KeyError in the analysed code is a KeyError of the analysed code
                raise Unsupported(f"subscript failed: {type(ex).__name__}")
        if isinstance(e, (ast.Tuple, ast.List, ast.Set)):
            vals = [self.ev(x) for x in e.elts]
            return tuple(vals) if isinstance(e, ast.Tuple) else (list(vals) if isinstance(e, ast.List) else set(vals))
        if isinstance(e, ast.Dict):
            if any(k is None for k in e.keys):
                raise Unsupported("dict unpacking")
            return {self.ev(k): self.ev(v) for k, v in zip(e.keys, e.values)}
        if isinstance(e, ast.BoolOp):
            if isinstance(e.op, ast.And):
                r: Any = True
                for v in e.values:
                    r = self.ev(v)
                    if not r:
                        return r
                return r
            r = False
            for v in e.values:
                r = self.ev(v)
                if r:
                    return r
            return r
        if isinstance(e, ast.UnaryOp):
            v = self.ev(e.operand)
            if isinstance(e.op, ast.Not):
                return not v
            if isinstance(e.op, ast.USub):
                return -v
            if isinstance(e.op, ast.UAdd):
                return +v
            raise Unsupported("unary op")
        if isinstance(e, ast.BinOp):
            a, b = self.ev(e.left), self.ev(e.right)
            if isinstance(e.op, ast.Add):
                return a + b
            if isinstance(e.op, ast.Sub):
                return a - b
            if isinstance(e.op, ast.Mult):
                return a * b
            raise Unsupported("binary op")
        if isinstance(e, ast.IfExp):
            return self.ev(e.body) if self.ev(e.test) else self.ev(e.orelse)
        if isinstance(e, ast.Compare):
            left = self.ev(e.left)
            for op, c in zip(e.ops, e.comparators):
                right = self.ev(c)
                if isinstance(op, ast.Eq):
                    ok = left == right
                elif isinstance(op, ast.NotEq):
                    ok = left != right
                elif isinstance(op, ast.In):
                    ok = left in right
                elif isinstance(op, ast.NotIn):
                    ok = left not in right
                elif isinstance(op, ast.Is):
                    ok = left is right
                elif isinstance(op, ast.IsNot):
                    ok = left is not right
                elif isinstance(op, ast.Lt):
                    ok = left < right
                elif isinstance(op, ast.LtE):
                    ok = left <= right
                elif isinstance(op, ast.Gt):
                    ok = left > right
                elif isinstance(op, ast.GtE):
                    ok = left >= right
                else:
                    raise Unsupported("comparison")
                if not ok:
                    return False
                left = right
            return True
        if isinstance(e, ast.Call):
            if e.keywords and any(k.arg is None for k in e.keywords):
                raise Unsupported("**kwargs")
            f = self.ev(e.func)
            if any(isinstance(a, ast.Starred) for a in e.args):
                raise Unsupported("*args")
            args = [self.ev(a) for a in e.args]
            kw = {k.arg: self.ev(k.value) for k in e.keywords}
            if f in _BUILTINS.values() or (getattr(f, "__self__", None) is not None and isinstance(f.__self__, (dict, list, str, tuple, set)) and f.__name__ in _METHODS):
                try:
                    return f(*args, **kw)
                except Exception as ex:
                    raise Unsupported(f"call failed: {type(ex).__name__}")
            raise Unsupported(f"call of {ast.unparse(e.func)[:30]}")
        if isinstance(e, (ast.GeneratorExp, ast.ListComp, ast.SetComp)):
            if len(e.generators) != 1 or e.generators[0].is_async:
                raise Unsupported("comprehension")
            g = e.generators[0]
            out = []
            saved = dict(self.env)
            for item in self.ev(g.iter):
                self.bind(g.target, item)
                if all(self.ev(c) for c in g.ifs):
                    out.append(self.ev(e.elt))
            self.env = saved
            return set(out) if isinstance(e, ast.SetComp) else out
        if isinstance(e, ast.JoinedStr):
            return "<text>"
        raise Unsupported(type(e).__name__)

    def bind(self, target: ast.AST, value: Any) -> None:
        if isinstance(target, ast.Name):
            self.env[target.id] = value
        elif isinstance(target, (ast.Tuple, ast.List)):
            vals = list(value)
            if len(vals) != len(target.elts):
                raise Unsupported("unpack")
            for t, v in zip(target.elts, vals):
                self.bind(t, v)
        elif isinstance(target, ast.Subscript):
            self.ev(target.value)[self.ev(target.slice)] = value
        else:
            raise Unsupported("assignment target")

    # ------------------------------------------------------------------ statements
    def run(self, stmts: List[ast.stmt]) -> None:
        for s in stmts:
            self.stmt(s)

    def stmt(self, s: ast.stmt) -> None:
        if isinstance(s, ast.Assign):
            v = self.ev(s.value)
            for t in s.targets:
                self.bind(t, v)
        elif isinstance(s, ast.AnnAssign):
            if s.value is not None:
                self.bind(s.target, self.ev(s.value))
        elif isinstance(s, ast.AugAssign):
            cur = self.ev(ast.copy_location(_load(s.target), s.target))
            v = self.ev(s.value)
            if isinstance(s.op, ast.Add):
                new = cur + v
            elif isinstance(s.op, ast.Sub):
                new = cur - v
            else:
                raise Unsupported("augmented op")
            self.bind(s.target, new)
        elif isinstance(s, ast.If):
            self.run(s.body if self.ev(s.test) else s.orelse)
        elif isinstance(s, ast.Expr):
            if isinstance(s.value, ast.Yield):
                self.yielded.append(self.ev(s.value.value) if s.value.value is not None else None)
            elif isinstance(s.value, ast.Constant):
                pass
            else:
                self.ev(s.value)
        elif isinstance(s, ast.Return):
            raise _Stop()
        elif isinstance(s, ast.Continue):
            raise _Continue()
        elif isinstance(s, ast.Break):
            raise _Break()
        elif isinstance(s, ast.Pass):
            pass
        elif isinstance(s, ast.For):
            for item in list(self.ev(s.iter)):
                self.bind(s.target, item)
                try:
                    self.run(s.body)
                except _Continue:
                    continue
                except _Break:
                    break
        else:
            raise Unsupported(type(s).__name__)


def _load(t: ast.AST) -> ast.AST:
    import copy

    c = copy.deepcopy(t)
    for n in ast.walk(c):
        if hasattr(n, "ctx"):
            n.ctx = ast.Load()
    return c


def simulate(func: ast.FunctionDef, module_literals: Dict[str, ast.expr], tokens: List[Tok], stop_condition: Dict[int, List[str]]) -> Tuple[List[Tok], Optional[int]]:
    """(tokens yielded, index of the token at which the scan stopped or None) for the generator `func(self, stop_condition)`
    whose body is: some initialisation, then one `for t in <the tokenizer>` loop."""
    params = [a.arg for a in func.args.posonlyargs + func.args.args]
    if len(params) != 2:
        raise Unsupported("signature")
    loops = [s for s in func.body if isinstance(s, ast.For)]
    if len(loops) != 1:
        raise Unsupported("not exactly one top-level loop")
    lp = loops[0]
    pre = func.body[: func.body.index(lp)]
    post = func.body[func.body.index(lp) + 1:]
    if any(not isinstance(s, (ast.Expr, ast.Pass, ast.Return)) for s in post):
        raise Unsupported("statements after the loop")
    it = Interp(module_literals, {params[0]: object(), params[1]: stop_condition})
    it.run([s for s in pre if not (isinstance(s, ast.Expr) and isinstance(s.value, ast.Constant))])
    for i, tok in enumerate(tokens):
        it.bind(lp.target, tok)
        try:
            it.run(lp.body)
        except _Continue:
            continue
        except _Break:
            return it.yielded, i
        except _Stop:
            return it.yielded, i
    return it.yielded, None


def bracket_scenarios() -> List[Tuple[str, List[Tok], Optional[int], str]]:
    """(name, tokens, index at which the scan must stop - None: must run to the end, what a deviation means)"""
    OP, NAME, COMMENT = tokenize.OP, tokenize.NAME, tokenize.COMMENT
    TEXT = getattr(tokenize, "FSTRING_MIDDLE", tokenize.STRING)
    o = lambda s: Tok(OP, s)  # noqa: E731
    out: List[Tuple[str, List[Tok], Optional[int], str]] = []
    out.append(("stop at depth zero", [Tok(NAME, "x"), o(",")], 1, "a stop token at depth zero does not end the scan"))
    for a, b in (("(", ")"), ("[", "]"), ("{", "}")):
        out.append((f"stop token inside {a}{b}", [o(a), Tok(NAME, "x"), o(","), Tok(NAME, "y"), o(b)], None, f"a ',' inside {a}..{b} ends the lambda early"))
        out.append((f"stop token after {a}{b} closed", [o(a), Tok(NAME, "x"), o(b), o(",")], 3, f"after {a}..{b} is closed the depth is not back at zero: the lambda's extent overruns"))
        out.append((f"nested {a}{a}{b}", [o(a), o(a), Tok(NAME, "x"), o(b), o(","), o(b)], None, f"a ',' inside nested {a}{a}..{b} ends the lambda early"))
    out.append(("mixed nesting ( [ ] ,", [o("("), o("["), Tok(NAME, "x"), o("]"), o(","), o(")")], None, "closing an inner bracket of another kind closes the outer one too"))
    out.append(("mixed nesting ( [ ] ) ,", [o("("), o("["), o("]"), o(")"), o(",")], 4, "after all brackets are closed the depth is not back at zero"))
    for br in ("(", "[", "{"):
        out.append((f"text token that is exactly {br}", [Tok(TEXT, br), Tok(NAME, "x"), o(",")], 2, f"the literal part of an f-string that is exactly '{br}' is counted as an open bracket: the extent of the lambda overruns (a documented layout - strings containing brackets - is no longer recovered)"))
    for br in (")", "]", "}"):
        out.append((f"text token that is exactly {br}", [o("("), Tok(TEXT, br), o(","), o(")")], None, f"the literal part of an f-string that is exactly '{br}' is counted as a closing bracket: a ',' inside brackets ends the lambda early"))
    out.append(("comment with a bracket", [Tok(COMMENT, "# ("), Tok(NAME, "x"), o(",")], 2, "a bracket inside a comment is counted"))
    return out
