"""E5 - finite-domain abstract evaluation of small literals / decision code read from the source.

Nothing from func_adl is executed: the objects evaluated are (a) lambda *string literals* found in
the source, parsed with ast and interpreted by the tiny interpreter below over integers, and
(b) decision lists (if/elif chains) interpreted over a finite abstract domain.
"""
from __future__ import annotations

import ast
import itertools
from typing import Any, Callable, Dict, List, Optional, Tuple

from .model import AnalysisError


class Unsupported(Exception):
    pass


def eval_int_expr(e: ast.AST, env: Dict[str, int]) -> Any:
    """Interpret an expression over ints/bools using only + - * comparisons, and/or/not, if-else."""
    if isinstance(e, ast.Constant) and isinstance(e.value, (int, bool)):
        return e.value
    if isinstance(e, ast.Name):
        if e.id not in env:
            raise Unsupported(f"free name {e.id}")
        return env[e.id]
    if isinstance(e, ast.BinOp) and isinstance(e.op, (ast.Add, ast.Sub, ast.Mult)):
        a, b = eval_int_expr(e.left, env), eval_int_expr(e.right, env)
        return a + b if isinstance(e.op, ast.Add) else a - b if isinstance(e.op, ast.Sub) else a * b
    if isinstance(e, ast.UnaryOp) and isinstance(e.op, (ast.USub, ast.UAdd, ast.Not)):
        v = eval_int_expr(e.operand, env)
        return -v if isinstance(e.op, ast.USub) else (+v if isinstance(e.op, ast.UAdd) else (not v))
    if isinstance(e, ast.IfExp):
        return eval_int_expr(e.body, env) if eval_int_expr(e.test, env) else eval_int_expr(e.orelse, env)
    if isinstance(e, ast.Compare):
        left = eval_int_expr(e.left, env)
        for op, c in zip(e.ops, e.comparators):
            right = eval_int_expr(c, env)
            ok = {
                ast.Lt: left < right,
                ast.LtE: left <= right,
                ast.Gt: left > right,
                ast.GtE: left >= right,
                ast.Eq: left == right,
                ast.NotEq: left != right,
            }.get(type(op))
            if ok is None:
                raise Unsupported(type(op).__name__)
            if not ok:
                return False
            left = right
        return True
    if isinstance(e, ast.BoolOp):
        vals = [eval_int_expr(v, env) for v in e.values]
        return all(vals) if isinstance(e.op, ast.And) else any(vals)
    raise Unsupported(type(e).__name__)


def parse_fold(src: str) -> Tuple[List[str], ast.expr]:
    try:
        tree = ast.parse(src.strip(), mode="eval")
    except SyntaxError as e:
        raise Unsupported(f"fold literal does not parse: {e}")
    lam = tree.body
    if not isinstance(lam, ast.Lambda):
        raise Unsupported("fold literal is not a lambda")
    a = lam.args
    if a.vararg or a.kwarg or a.kwonlyargs or a.defaults or a.posonlyargs:
        raise Unsupported("fold lambda has non-plain parameters")
    return [x.arg for x in a.args], lam.body


GRID = [-7, -2, -1, 0, 1, 2, 3, 11]


def fold_equals(src: str, spec: Callable[[int, int], int]) -> Tuple[bool, str]:
    """Does the 2-parameter fold literal compute spec(acc, v) on the integer grid?

    For polynomial folds (only + - *) of degree <= 2 per variable an 8x8 grid decides identity; for
    folds that touch their operands only through comparisons the grid contains all three orderings
    acc<v, acc==v, acc>v with both signs, which is the finite set of behaviours.
    """
    params, body = parse_fold(src)
    if len(params) != 2:
        return False, f"fold takes {len(params)} parameters, expected (acc, v)"
    for acc, v in itertools.product(GRID, GRID):
        try:
            got = eval_int_expr(body, {params[0]: acc, params[1]: v})
        except Unsupported as e:
            raise AnalysisError(f"fold literal {src!r} uses an unsupported construct: {e}")
        want = spec(acc, v)
        if got != want or isinstance(got, bool) != isinstance(want, bool):
            return False, f"fold({acc}, {v}) = {got!r}, specification gives {want!r}"
    return True, ""
